#!/bin/bash
# usage: ./run.sh <Cxx> quick|thorough | ./run.sh replay <file> | ./run.sh selftest | ./run.sh build
set -u
cd "$(dirname "$0")"
export GOFLAGS=-mod=mod GOPROXY=off GOSUMDB=off GOTOOLCHAIN=local
ROOT="$(pwd)"
export VERIF_ROOT="$ROOT"
mkdir -p "$ROOT/.work/bin"
# VERIF_REPO=<dir> checks a scratch copy of the repository instead of /repo (used to validate the
# monitors against seeded changes and reverted fixes without touching /repo); binaries and work
# files then live under .work/alt-<hash> so that they do not disturb runs against /repo.
MODFLAG=""
BIN="$ROOT/.work/bin"
if [ -n "${VERIF_REPO:-}" ]; then
  tag=$(echo "$VERIF_REPO" | md5sum | cut -c1-8)
  BIN="$ROOT/.work/alt-$tag/bin"
  mkdir -p "$BIN"
  sed "s|=> /repo|=> $VERIF_REPO|" "$ROOT/harness/go.mod" > "$ROOT/.work/alt-$tag/go.mod"
  cp "$ROOT/harness/go.sum" "$ROOT/.work/alt-$tag/go.sum"
  MODFLAG="-modfile=$ROOT/.work/alt-$tag/go.mod"
  export VERIF_WORK="$ROOT/.work/alt-$tag"
fi
build() {
  (cd "$ROOT/harness" && go build $MODFLAG -race -tags verif -o "$BIN/vcheck" ./cmd/vcheck) || { echo "BROKEN: build (race) failed"; exit 2; }
  (cd "$ROOT/harness" && go build $MODFLAG -tags verif -o "$BIN/vcheck-norace" ./cmd/vcheck) || { echo "BROKEN: build (norace) failed"; exit 2; }
}
build
case "${1:-}" in
  build) exit 0 ;;
  replay) exec "$BIN/vcheck" replay "$2" ;;
  selftest) exec "$BIN/vcheck" selftest ;;
  *) exec "$BIN/vcheck" check "$1" --tier "${2:-${VERIF_TIER:-quick}}" ;;
esac
