#!/bin/bash
# usage: ./run.sh <Cxx> quick|thorough | ./run.sh replay <file> | ./run.sh selftest | ./run.sh build
set -u
cd "$(dirname "$0")"
export GOFLAGS=-mod=mod GOPROXY=off GOSUMDB=off GOTOOLCHAIN=local
ROOT="$(pwd)"
export VERIF_ROOT="$ROOT"
mkdir -p "$ROOT/.work/bin"
build() {
  (cd "$ROOT/harness" && go build -race -tags verif -o "$ROOT/.work/bin/vcheck" ./cmd/vcheck) || { echo "BROKEN: build (race) failed"; exit 2; }
  (cd "$ROOT/harness" && go build -tags verif -o "$ROOT/.work/bin/vcheck-norace" ./cmd/vcheck) || { echo "BROKEN: build (norace) failed"; exit 2; }
}
build
case "${1:-}" in
  build) exit 0 ;;
  replay) exec "$ROOT/.work/bin/vcheck" replay "$2" ;;
  selftest) exec "$ROOT/.work/bin/vcheck" selftest ;;
  *) exec "$ROOT/.work/bin/vcheck" check "$1" --tier "${2:-${VERIF_TIER:-quick}}" ;;
esac
