package main

import (
	"flag"
	"fmt"
	"os"
	"strconv"

	"verif/harness/internal/fake"
	"verif/harness/internal/props"
	"verif/harness/internal/run"
)

func envSeed() int64 {
	if v := os.Getenv("VERIF_SEED"); v != "" {
		if n, err := strconv.ParseInt(v, 10, 64); err == nil {
			return n
		}
	}
	return 1
}

func main() {
	if len(os.Args) < 2 {
		fmt.Println("usage: vcheck check <Cxx> [--tier quick|thorough] | worker ... | replay <file> | selftest")
		os.Exit(2)
	}
	fake.Install()
	props.RegisterAll()
	switch os.Args[1] {
	case "check":
		fs := flag.NewFlagSet("check", flag.ExitOnError)
		tier := fs.String("tier", "quick", "")
		seed := fs.Int64("seed", envSeed(), "")
		if len(os.Args) < 3 {
			os.Exit(2)
		}
		fs.Parse(os.Args[3:])
		if t := os.Getenv("VERIF_TIER"); t != "" && !isFlagSet(fs, "tier") {
			*tier = t
		}
		p := run.Registry[os.Args[2]]
		if p == nil {
			fmt.Println("unknown property", os.Args[2])
			os.Exit(2)
		}
		os.Exit(run.Check(p, &run.Ctx{Seed: *seed, Tier: *tier}))
	case "worker":
		fs := flag.NewFlagSet("worker", flag.ExitOnError)
		prop := fs.String("prop", "", "")
		tier := fs.String("tier", "quick", "")
		seed := fs.Int64("seed", 1, "")
		from := fs.Int("from", 0, "")
		to := fs.Int("to", 0, "")
		journal := fs.String("journal", "", "")
		out := fs.String("out", "", "")
		witness := fs.String("witness", "", "")
		fs.Parse(os.Args[2:])
		p := run.Registry[*prop]
		if p == nil {
			os.Exit(2)
		}
		c := &run.Ctx{Seed: *seed, Tier: *tier}
		if *witness != "" {
			os.Exit(run.WorkerWitness(p, c, *witness, *journal, *out))
		}
		os.Exit(run.Worker(p, c, *from, *to, *journal, *out))
	case "replay":
		if len(os.Args) < 3 {
			os.Exit(2)
		}
		os.Exit(run.Replay(os.Args[2]))
	case "mkwitness":
		os.Exit(props.MakeWitnesses())
	case "selftest":
		os.Exit(props.SelfTest())
	default:
		fmt.Println("unknown command", os.Args[1])
		os.Exit(2)
	}
}

func isFlagSet(fs *flag.FlagSet, name string) bool {
	set := false
	fs.Visit(func(f *flag.Flag) {
		if f.Name == name {
			set = true
		}
	})
	return set
}
