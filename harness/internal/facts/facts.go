// Package facts turns a schema into a set of comparable facts.
package facts

import (
	"fmt"
	"sort"
	"strings"

	"github.com/vektah/gqlparser/v2/ast"
)

type Set map[string]bool

// Options select which fact kinds are extracted.
type Options struct {
	Descriptions bool
	Deprecations bool
	Directives   bool // directive definitions
	Roots        bool
	SkipField    func(typ, field string) bool
}

func All() Options {
	return Options{Descriptions: true, Deprecations: true, Directives: true, Roots: true}
}

func builtinType(n string) bool {
	if strings.HasPrefix(n, "__") {
		return true
	}
	switch n {
	case "Int", "Float", "String", "Boolean", "ID":
		return true
	}
	return false
}

func builtinDirective(n string) bool {
	switch n {
	case "skip", "include", "deprecated", "specifiedBy":
		return true
	}
	return false
}

func valStr(v *ast.Value) string {
	if v == nil {
		return "<none>"
	}
	return v.String()
}

// Of extracts the facts of schema s.
func Of(s *ast.Schema, o Options) Set {
	out := Set{}
	for name, def := range s.Types {
		if builtinType(name) {
			continue
		}
		out[fmt.Sprintf("type %s %s", name, def.Kind)] = true
		if o.Descriptions && def.Description != "" {
			out[fmt.Sprintf("desc %s %q", name, def.Description)] = true
		}
		for _, i := range def.Interfaces {
			out[fmt.Sprintf("implements %s -> %s", name, i)] = true
		}
		for _, m := range def.Types {
			out[fmt.Sprintf("member %s | %s", name, m)] = true
		}
		for _, ev := range def.EnumValues {
			out[fmt.Sprintf("enumvalue %s.%s", name, ev.Name)] = true
			if o.Deprecations {
				if d := ev.Directives.ForName("deprecated"); d != nil {
					out[fmt.Sprintf("deprecated %s.%s %s", name, ev.Name, deprReason(d))] = true
				}
			}
			if o.Descriptions && ev.Description != "" {
				out[fmt.Sprintf("desc %s.%s %q", name, ev.Name, ev.Description)] = true
			}
		}
		for _, f := range def.Fields {
			if strings.HasPrefix(f.Name, "__") {
				continue
			}
			if o.SkipField != nil && o.SkipField(name, f.Name) {
				continue
			}
			dv := ""
			if def.Kind == ast.InputObject {
				dv = " = " + valStr(f.DefaultValue)
			}
			out[fmt.Sprintf("field %s.%s: %s%s", name, f.Name, f.Type.String(), dv)] = true
			for _, a := range f.Arguments {
				out[fmt.Sprintf("arg %s.%s(%s: %s = %s)", name, f.Name, a.Name, a.Type.String(), valStr(a.DefaultValue))] = true
				if o.Descriptions && a.Description != "" {
					out[fmt.Sprintf("desc %s.%s(%s) %q", name, f.Name, a.Name, a.Description)] = true
				}
			}
			if o.Deprecations {
				if d := f.Directives.ForName("deprecated"); d != nil {
					out[fmt.Sprintf("deprecated %s.%s %s", name, f.Name, deprReason(d))] = true
				}
			}
			if o.Descriptions && f.Description != "" {
				out[fmt.Sprintf("desc %s.%s %q", name, f.Name, f.Description)] = true
			}
		}
	}
	if o.Directives {
		for name, d := range s.Directives {
			if builtinDirective(name) {
				continue
			}
			locs := make([]string, len(d.Locations))
			for i, l := range d.Locations {
				locs[i] = string(l)
			}
			sort.Strings(locs)
			out[fmt.Sprintf("directive @%s repeatable=%v on %s", name, d.IsRepeatable, strings.Join(locs, "|"))] = true
			for _, a := range d.Arguments {
				out[fmt.Sprintf("directivearg @%s(%s: %s = %s)", name, a.Name, a.Type.String(), valStr(a.DefaultValue))] = true
			}
			if o.Descriptions && d.Description != "" {
				out[fmt.Sprintf("desc @%s %q", name, d.Description)] = true
			}
		}
	}
	if o.Roots {
		if s.Query != nil {
			out["root query "+s.Query.Name] = true
		}
		if s.Mutation != nil {
			out["root mutation "+s.Mutation.Name] = true
		}
		if s.Subscription != nil {
			out["root subscription "+s.Subscription.Name] = true
		}
	}
	return out
}

// deprReason renders the effective reason of @deprecated (the directive's default applies when absent).
func deprReason(d *ast.Directive) string {
	if a := d.Arguments.ForName("reason"); a != nil {
		if a.Value.Kind == ast.NullValue {
			return "reason:null"
		}
		return fmt.Sprintf("reason:%q", a.Value.Raw)
	}
	return fmt.Sprintf("reason:%q", "No longer supported")
}

func printArgs(al ast.ArgumentList) string {
	var parts []string
	for _, a := range al {
		parts = append(parts, a.Name+":"+a.Value.String())
	}
	sort.Strings(parts)
	return strings.Join(parts, ",")
}

// Union of several sets.
func Union(sets ...Set) Set {
	out := Set{}
	for _, s := range sets {
		for k := range s {
			out[k] = true
		}
	}
	return out
}

// Diff returns (only in a, only in b), sorted.
func Diff(a, b Set) (onlyA, onlyB []string) {
	for k := range a {
		if !b[k] {
			onlyA = append(onlyA, k)
		}
	}
	for k := range b {
		if !a[k] {
			onlyB = append(onlyB, k)
		}
	}
	sort.Strings(onlyA)
	sort.Strings(onlyB)
	return
}
