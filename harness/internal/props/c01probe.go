package props

import (
	"math/rand"
	"sort"
	"strings"

	"verif/harness/internal/engine"
	"verif/harness/internal/gen"
	"verif/harness/internal/rig"
)

// genDedupProbe builds an operation aimed at the executor's request de-duplication: one root
// field selected twice (aliases m1/m2), below it a field F of the entity that another service
// owns and whose value is again an entity (list).  Both copies lead to the same follow-up
// request for the same object; they differ only in the client's own `id` inside F, or in one
// more field inside F that needs a further service.  Whatever is done to one copy's part of
// the answer (helper removal, deeper stitching) must not show in the other.
func genDedupProbe(r *rand.Rand, u *gen.Universe) *gen.Op {
	noRequired := func(f *gen.Field) bool {
		for _, a := range f.Args {
			if strings.HasSuffix(a.Type, "!") && a.Default == "" {
				return false
			}
		}
		return true
	}
	type cand struct {
		q, g, f *gen.Field // g: optional hop from the root's entity to another entity
		x, y    *gen.Field // x: leaf of T at F's owner (may be nil); y: leaf of T owned elsewhere (may be nil)
		hasList bool
	}
	var cands []cand
	type start struct {
		q, g *gen.Field
		e    *gen.TypeDef
		from int // service that answers the object
	}
	var starts []start
	for _, q := range u.Query {
		if q.Name == "node" || !noRequired(q) {
			continue
		}
		e := u.Type(gen.BaseName(q.Type))
		if e == nil || e.Kind != gen.KEntity {
			continue
		}
		starts = append(starts, start{q, nil, e, q.Owner})
		for _, g := range e.Fields {
			if g.Name == "id" || !noRequired(g) {
				continue
			}
			if e2 := u.Type(gen.BaseName(g.Type)); e2 != nil && e2.Kind == gen.KEntity {
				starts = append(starts, start{q, g, e2, g.Owner})
			}
		}
	}
	for _, st := range starts {
		q, e := st.q, st.e
		for _, f := range e.Fields {
			if f.Name == "id" || f.Owner == st.from || !noRequired(f) {
				continue
			}
			t := u.Type(gen.BaseName(f.Type))
			if t == nil || t.Kind != gen.KEntity {
				continue
			}
			c := cand{q: q, g: st.g, f: f, hasList: strings.Contains(f.Type, "[")}
			for _, tf := range t.Fields {
				if tf.Name == "id" || !noRequired(tf) {
					continue
				}
				if tt := u.Type(gen.BaseName(tf.Type)); tt != nil && (tt.Kind == gen.KEntity || tt.Kind == gen.KValue || tt.Kind == gen.KInterface || tt.Kind == gen.KUnion || tt.Kind == gen.KSplitValue) {
					continue
				}
				if tf.Owner == f.Owner && c.x == nil {
					c.x = tf
				} else if tf.Owner != f.Owner && c.y == nil {
					c.y = tf
				}
			}
			cands = append(cands, c)
		}
	}
	if len(cands) == 0 {
		return nil
	}
	// prefer list-valued F (objects inside lists are where sharing hides)
	var lists []cand
	for _, c := range cands {
		if c.hasList {
			lists = append(lists, c)
		}
	}
	if len(lists) > 0 && r.Intn(4) != 0 {
		cands = lists
	}
	c := cands[r.Intn(len(cands))]
	x := "__typename"
	if c.x != nil {
		x = c.x.Name
	}
	full, bare := "", ""
	tags := []string{"probe:dedup"}
	switch {
	case c.y != nil && r.Intn(2) == 0:
		full, bare = "{ "+x+" "+c.y.Name+" }", "{ "+x+" }"
		tags = append(tags, "probe:dedup-deeper-step")
	default:
		full, bare = "{ id "+x+" }", "{ "+x+" }"
		tags = append(tags, "probe:dedup-explicit-id")
	}
	a, b := full, bare
	if r.Intn(2) == 0 {
		a, b = bare, full
	}
	pre, post := c.q.Name+" { ", " }"
	if c.g != nil {
		pre, post = pre+c.g.Name+" { ", " } }"
		tags = append(tags, "probe:dedup-hop")
	}
	q := "{ m1: " + pre + c.f.Name + " " + a + post + " m2: " + pre + c.f.Name + " " + b + post + " }"
	if c.hasList {
		tags = append(tags, "probe:dedup-list")
	}
	return &gen.Op{Query: q, Tags: tags}
}

// genNodeSpanProbe builds a root node(id:) selection with member fragments on two entity types
// T and T2 where the service owning T2's field does not declare T at all: that service answers
// `node: null` for an id of T while T's own service answers the object, so two root steps
// answer the same response key with a null and an object.
func genNodeSpanProbe(r *rand.Rand, cu *cachedUni, idStyle, pool int) *gen.Op {
	u := cu.u
	declares := func(svc int, t string) bool {
		if svc < 0 || svc >= len(cu.spec.Services) {
			return true
		}
		return strings.Contains(cu.spec.Services[svc].SDL, "type "+t+" ")
	}
	leaf := func(t *gen.TypeDef, owner int) *gen.Field {
		var out []*gen.Field
		for _, f := range t.Fields {
			if f.Name == "id" || (owner >= 0 && f.Owner != owner) {
				continue
			}
			req := false
			for _, a := range f.Args {
				if strings.HasSuffix(a.Type, "!") && a.Default == "" {
					req = true
				}
			}
			if tt := u.Type(gen.BaseName(f.Type)); req || (tt != nil && tt.Kind != gen.KEnum && tt.Kind != gen.KScalar) {
				continue
			}
			out = append(out, f)
		}
		if len(out) == 0 {
			return nil
		}
		return out[r.Intn(len(out))]
	}
	type cand struct {
		t, t2  *gen.TypeDef
		f1, f2 *gen.Field
	}
	var cands []cand
	for _, t := range u.Types {
		if t.Kind != gen.KEntity {
			continue
		}
		f1 := leaf(t, -1)
		if f1 == nil {
			continue
		}
		for _, t2 := range u.Types {
			if t2.Kind != gen.KEntity || t2 == t {
				continue
			}
			for _, f2 := range t2.Fields {
				if f2.Name == "id" || declares(f2.Owner, t.Name) || f2.Owner == f1.Owner {
					continue
				}
				if lf := leaf(&gen.TypeDef{Fields: []*gen.Field{f2}}, -1); lf != nil {
					cands = append(cands, cand{t, t2, f1, f2})
				}
			}
		}
	}
	if len(cands) == 0 {
		return nil
	}
	c := cands[r.Intn(len(cands))]
	if pool <= 0 {
		pool = 3
	}
	id := gen.MakeIDStyle(idStyle, c.t.Name, r.Intn(pool))
	a, b := "... on "+c.t.Name+" { "+c.f1.Name+" }", "... on "+c.t2.Name+" { "+c.f2.Name+" }"
	if r.Intn(2) == 0 {
		a, b = b, a
	}
	return &gen.Op{Query: "{ node(id: \"" + id + "\") { " + a + " " + b + " } }", Tags: []string{"probe:node-span"}}
}

// genAbstractHistoryProbe builds a pair (earlier, judged) of operations on a root field of interface type: the
// earlier one selects only on the last member (fields from two services), the judged one only on the first member
// (a field living at the answering service).  What planning the earlier request does to the gateway's shared view of
// the interface (possible types, routes) must not change the judged answer.
func genAbstractHistoryProbe(r *rand.Rand, cu *cachedUni) (earlier, judged *gen.Op) {
	u := cu.u
	noRequired := func(f *gen.Field) bool {
		for _, a := range f.Args {
			if strings.HasSuffix(a.Type, "!") && a.Default == "" {
				return false
			}
		}
		return true
	}
	leaves := func(t *gen.TypeDef, owner int, same bool) []*gen.Field {
		var out []*gen.Field
		for _, f := range t.Fields {
			if f.Name == "id" || !noRequired(f) || (same && f.Owner != owner) || (!same && f.Owner == owner) {
				continue
			}
			if tt := u.Type(gen.BaseName(f.Type)); tt != nil && tt.Kind != gen.KEnum && tt.Kind != gen.KScalar {
				continue
			}
			out = append(out, f)
		}
		return out
	}
	type cand struct {
		q           *gen.Field
		first, last *gen.TypeDef
		fl          *gen.Field   // local leaf of the first member
		ll, lf      []*gen.Field // local / foreign leaves of the last member
	}
	var cands []cand
	for _, q := range u.Query {
		it := u.Type(gen.BaseName(q.Type))
		if q.Name == "node" || !noRequired(q) || it == nil || it.Kind != gen.KInterface {
			continue
		}
		var members []*gen.TypeDef
		for _, t := range u.Types {
			if t.Kind != gen.KEntity {
				continue
			}
			for _, in := range t.Impl {
				if in == it.Name {
					members = append(members, t)
				}
			}
		}
		if len(members) < 2 {
			continue
		}
		sort.Slice(members, func(i, j int) bool { return members[i].Name < members[j].Name })
		first, last := members[0], members[len(members)-1]
		fl := leaves(first, q.Owner, true)
		lf := leaves(last, q.Owner, false)
		if len(fl) == 0 || len(lf) == 0 {
			continue
		}
		cands = append(cands, cand{q, first, last, fl[r.Intn(len(fl))], leaves(last, q.Owner, true), lf})
	}
	if len(cands) == 0 {
		return nil, nil
	}
	c := cands[r.Intn(len(cands))]
	sel := c.lf[r.Intn(len(c.lf))].Name
	if len(c.ll) > 0 {
		sel = c.ll[r.Intn(len(c.ll))].Name + " " + sel
	}
	earlier = &gen.Op{Query: "{ " + c.q.Name + " { ... on " + c.last.Name + " { " + sel + " } } }", Tags: []string{"probe:abstract-history-earlier"}}
	judged = &gen.Op{Query: "{ " + c.q.Name + " { ... on " + c.first.Name + " { " + c.fl.Name + " } } }", Tags: []string{"probe:abstract-history"}}
	return earlier, judged
}

// genPartialCoverProbe builds a selection on a list of an abstract type that covers, by a member fragment, only a
// member which occurs in the list but is not the type of its last entry: a single server answers {} for the
// uncovered entries, wherever they stand, and the list stays.  The reference engine is asked first which types
// the entries have.
func genPartialCoverProbe(r *rand.Rand, cu *cachedUni) *gen.Op {
	u := cu.u
	mono, data, err := rig.LoadMono(cu.spec)
	if err != nil {
		return nil
	}
	noRequired := func(f *gen.Field) bool {
		for _, a := range f.Args {
			if strings.HasSuffix(a.Type, "!") && a.Default == "" {
				return false
			}
		}
		return true
	}
	var cands []*gen.Op
	for _, q := range u.Query {
		at := u.Type(gen.BaseName(q.Type))
		if q.Name == "node" || !noRequired(q) || at == nil || !strings.HasPrefix(q.Type, "[") || (at.Kind != gen.KInterface && at.Kind != gen.KUnion) {
			continue
		}
		ref := engine.Execute(mono, engine.Request{Query: "{ " + q.Name + " { __typename } }"}, data, "")
		if len(ref.Errors) > 0 || ref.Data == nil {
			continue
		}
		list, _ := rig.Roundtrip(ref.Data).(map[string]any)[q.Name].([]any)
		if len(list) < 2 {
			continue
		}
		lastT := ""
		if m, ok := list[len(list)-1].(map[string]any); ok {
			lastT, _ = m["__typename"].(string)
		}
		if lastT == "" {
			continue
		}
		seen := map[string]bool{}
		for _, e := range list[:len(list)-1] {
			if m, ok := e.(map[string]any); ok {
				if tn, _ := m["__typename"].(string); tn != "" && tn != lastT {
					seen[tn] = true
				}
			}
		}
		for _, tn := range sortedKeys(seen) {
			t := u.Type(tn)
			if t == nil {
				continue
			}
			for _, f := range t.Fields {
				if f.Name == "id" || !noRequired(f) {
					continue
				}
				if tt := u.Type(gen.BaseName(f.Type)); tt != nil && tt.Kind != gen.KEnum && tt.Kind != gen.KScalar {
					continue
				}
				if t.Kind == gen.KEntity && f.Owner != q.Owner {
					continue
				}
				cands = append(cands, &gen.Op{Query: "{ " + q.Name + " { ... on " + tn + " { " + f.Name + " } } }", Tags: []string{"probe:partial-cover-last-uncovered"}})
				break
			}
		}
	}
	if len(cands) == 0 {
		return nil
	}
	return cands[r.Intn(len(cands))]
}

// genSharedDependantProbe builds an operation with two root fields answered by two different services whose
// selections both need, at the same depth, a third party: fields of the returned entities that one and the same
// service owns.  That service appears at one plan level and is to be asked in one call.
func genSharedDependantProbe(r *rand.Rand, u *gen.Universe) *gen.Op {
	noRequired := func(f *gen.Field) bool {
		for _, a := range f.Args {
			if strings.HasSuffix(a.Type, "!") && a.Default == "" {
				return false
			}
		}
		return true
	}
	type half struct {
		q    *gen.Field
		leaf map[int][]string // owner -> scalar leaves of the returned entity owned by it
	}
	var halves []half
	for _, q := range u.Query {
		e := u.Type(gen.BaseName(q.Type))
		if q.Name == "node" || !noRequired(q) || e == nil || e.Kind != gen.KEntity {
			continue
		}
		h := half{q: q, leaf: map[int][]string{}}
		for _, f := range e.Fields {
			if f.Name == "id" || !noRequired(f) || f.Owner == q.Owner {
				continue
			}
			if tt := u.Type(gen.BaseName(f.Type)); tt != nil && tt.Kind != gen.KEnum && tt.Kind != gen.KScalar {
				continue
			}
			h.leaf[f.Owner] = append(h.leaf[f.Owner], f.Name)
		}
		if len(h.leaf) > 0 {
			halves = append(halves, h)
		}
	}
	var cands []string
	for i, a := range halves {
		for _, b := range halves[i+1:] {
			if a.q.Owner == b.q.Owner || a.q.Name == b.q.Name {
				continue
			}
			for owner, la := range a.leaf {
				if lb, ok := b.leaf[owner]; ok {
					cands = append(cands, "{ "+a.q.Name+" { "+la[r.Intn(len(la))]+" } "+b.q.Name+" { "+lb[r.Intn(len(lb))]+" } }")
				}
			}
		}
	}
	if len(cands) == 0 {
		return nil
	}
	sort.Strings(cands)
	return &gen.Op{Query: cands[r.Intn(len(cands))], Tags: []string{"probe:shared-dependant"}}
}
