package props

import (
	"math/rand"
	"strings"

	"verif/harness/internal/gen"
)

// genDedupProbe builds an operation aimed at the executor's request de-duplication: one root
// field selected twice (aliases m1/m2), below it a field F of the entity that another service
// owns and whose value is again an entity (list).  Both copies lead to the same follow-up
// request for the same object; they differ only in the client's own `id` inside F, or in one
// more field inside F that needs a further service.  Whatever is done to one copy's part of
// the answer (helper removal, deeper stitching) must not show in the other.
func genDedupProbe(r *rand.Rand, u *gen.Universe) *gen.Op {
	noRequired := func(f *gen.Field) bool {
		for _, a := range f.Args {
			if strings.HasSuffix(a.Type, "!") && a.Default == "" {
				return false
			}
		}
		return true
	}
	type cand struct {
		q, g, f *gen.Field // g: optional hop from the root's entity to another entity
		x, y    *gen.Field // x: leaf of T at F's owner (may be nil); y: leaf of T owned elsewhere (may be nil)
		hasList bool
	}
	var cands []cand
	type start struct {
		q, g *gen.Field
		e    *gen.TypeDef
		from int // service that answers the object
	}
	var starts []start
	for _, q := range u.Query {
		if q.Name == "node" || !noRequired(q) {
			continue
		}
		e := u.Type(gen.BaseName(q.Type))
		if e == nil || e.Kind != gen.KEntity {
			continue
		}
		starts = append(starts, start{q, nil, e, q.Owner})
		for _, g := range e.Fields {
			if g.Name == "id" || !noRequired(g) {
				continue
			}
			if e2 := u.Type(gen.BaseName(g.Type)); e2 != nil && e2.Kind == gen.KEntity {
				starts = append(starts, start{q, g, e2, g.Owner})
			}
		}
	}
	for _, st := range starts {
		q, e := st.q, st.e
		for _, f := range e.Fields {
			if f.Name == "id" || f.Owner == st.from || !noRequired(f) {
				continue
			}
			t := u.Type(gen.BaseName(f.Type))
			if t == nil || t.Kind != gen.KEntity {
				continue
			}
			c := cand{q: q, g: st.g, f: f, hasList: strings.Contains(f.Type, "[")}
			for _, tf := range t.Fields {
				if tf.Name == "id" || !noRequired(tf) {
					continue
				}
				if tt := u.Type(gen.BaseName(tf.Type)); tt != nil && (tt.Kind == gen.KEntity || tt.Kind == gen.KValue || tt.Kind == gen.KInterface || tt.Kind == gen.KUnion || tt.Kind == gen.KSplitValue) {
					continue
				}
				if tf.Owner == f.Owner && c.x == nil {
					c.x = tf
				} else if tf.Owner != f.Owner && c.y == nil {
					c.y = tf
				}
			}
			cands = append(cands, c)
		}
	}
	if len(cands) == 0 {
		return nil
	}
	// prefer list-valued F (objects inside lists are where sharing hides)
	var lists []cand
	for _, c := range cands {
		if c.hasList {
			lists = append(lists, c)
		}
	}
	if len(lists) > 0 && r.Intn(4) != 0 {
		cands = lists
	}
	c := cands[r.Intn(len(cands))]
	x := "__typename"
	if c.x != nil {
		x = c.x.Name
	}
	full, bare := "", ""
	tags := []string{"probe:dedup"}
	switch {
	case c.y != nil && r.Intn(2) == 0:
		full, bare = "{ "+x+" "+c.y.Name+" }", "{ "+x+" }"
		tags = append(tags, "probe:dedup-deeper-step")
	default:
		full, bare = "{ id "+x+" }", "{ "+x+" }"
		tags = append(tags, "probe:dedup-explicit-id")
	}
	a, b := full, bare
	if r.Intn(2) == 0 {
		a, b = bare, full
	}
	pre, post := c.q.Name+" { ", " }"
	if c.g != nil {
		pre, post = pre+c.g.Name+" { ", " } }"
		tags = append(tags, "probe:dedup-hop")
	}
	q := "{ m1: " + pre + c.f.Name + " " + a + post + " m2: " + pre + c.f.Name + " " + b + post + " }"
	if c.hasList {
		tags = append(tags, "probe:dedup-list")
	}
	return &gen.Op{Query: q, Tags: tags}
}
