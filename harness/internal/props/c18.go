package props

import (
	"encoding/json"
	"fmt"
	"runtime"
	"strings"
	"sync/atomic"
	"time"

	"verif/harness/internal/engine"
	"verif/harness/internal/fake"
	"verif/harness/internal/rig"
	"verif/harness/internal/run"
	"verif/harness/internal/sched"
)

// C18 — subscription teardown is safe under every interleaving.
type c18 struct{}

type c18Action struct {
	Kind    string `json:"kind"` // init start dupstart stop stopunknown terminate tcpclose partial malformed nopayload unknown invalidquery wait
	Sub     int    `json:"sub,omitempty"`
	SleepUs int    `json:"sleep_us,omitempty"`
}

type c18Case struct {
	U        rig.UniverseSpec `json:"universe"`
	Cfg      rig.Config       `json:"config"`
	Subs     []subSpec        `json:"subscriptions"`
	History  []c18Action      `json:"history"`
	Upstream string           `json:"upstream_mode"` // stream | complete-early | error-early | close-early | refuse | close-after-upgrade
	Mode     string           `json:"mode"`          // jitter | directed
	Wait     string           `json:"wait_point,omitempty"`
	Until    string           `json:"until_point,omitempty"`
	Jitter   uint64           `json:"jitter_seed"`
}

func (c18) ID() string            { return "C18" }
func (c18) Level() string         { return "exploration" }
func (c18) RaceIsViolation() bool { return true }
func (c18) Rule() string {
	return "cases = generated universe with Subscription fields x history of client actions on one websocket connection (init, start, duplicate-id start, stop, stop of unknown id, terminate, abrupt TCP close, half-sent frame, malformed JSON, start without payload, start with invalid query, unknown message type, pauses) x upstream behaviour (streams events every ~150 us, completes early, error frame early, abrupt close early, refuses the upgrade, closes right after the upgrade) x schedule: (a) hook jitter with per-role slowness, (b) directed: both orders of every pair of hook points between {Close} x {Listen loop/defer}, {Listen defer} x {upstream reader/closer}, {handler cleanup} x {Listen}; " +
		"monitors: process liveness (child isolation: panic: / fatal error:), strict client frame parser (RFC 6455 header sanity, complete JSON message of a known type), every upstream connection of the case is observed closed within the settle bound after the client connection ended, and no goroutine with a pebbles subscription frame (handler, heartbeat, Listen, Close, upstream reader/closer) remains (same goroutines stuck over the whole settle window), race detector; " +
		"distinct = distinct (history, upstream mode, schedule) and distinct hook traces; non-trivial = a subscription was started and torn down while events could flow"
}
func (c18) Assumptions() []string {
	return []string{"'does not deadlock' and 'goroutines terminate' are decided as bounded progress: after all stimuli ended, within 3 s (quick) / 8 s (thorough)", "the 'exhaustively on a model' half of the quantifier is outside this technique family; the directed schedules enumerate hook-point pairs on the real implementation instead"}
}

var (
	c18Close   = []string{"sub.close.enter", "sub.close.after_trylock", "sub.close.before_send", "sub.close.sent"}
	c18Listen  = []string{"sub.listen.loop", "sub.listen.got_resp", "sub.listen.before_write", "sub.listen.wrote", "sub.listen.got_close", "sub.listen.defer.enter", "sub.listen.defer.queryer_closed", "sub.listen.defer.locked", "sub.listen.defer.closed"}
	c18Defer   = []string{"sub.listen.defer.enter", "sub.listen.defer.queryer_closed", "sub.listen.defer.locked", "sub.listen.defer.closed"}
	c18Reader  = []string{"q.sub.closer.woke", "q.sub.reader.before_send", "q.sub.reader.exit"}
	c18Handler = []string{"sub.handler.msg", "sub.handler.clean", "sub.handler.exit"}
)

func c18Pairs() [][2]string {
	var out [][2]string
	both := func(a, b []string) {
		for _, x := range a {
			for _, y := range b {
				out = append(out, [2]string{x, y}, [2]string{y, x})
			}
		}
	}
	both(c18Close, c18Listen)
	both(c18Defer, c18Reader)
	both(c18Handler, c18Listen)
	return out
}

func (p c18) counts(c *run.Ctx) (jitter int, dirReps int) {
	if c.Tier == "thorough" {
		return 12000, 8
	}
	return 420, 1
}
func (p c18) heartbeatCases(c *run.Ctx) int {
	if c.Tier == "thorough" {
		return 48
	}
	return 4
}
func (p c18) NumCases(c *run.Ctx) int {
	j, d := p.counts(c)
	return j + len(c18Pairs())*d
}
func (p c18) BatchSize(c *run.Ctx) int { return 6 }

var c18Upstreams = []string{"stream", "stream", "stream", "complete-early", "error-early", "close-early", "refuse", "close-after-upgrade"}

func (p c18) Gen(c *run.Ctx, idx int) (json.RawMessage, error) {
	nj, _ := p.counts(c)
	r := rng(c.Seed, "c18/case", idx)
	uidx := idx % 6
	cu, err := universe(c.Seed, "subs", uidx, subProfile)
	if err != nil {
		return nil, err
	}
	if cu.mono.Subscription == nil {
		return nil, nil
	}
	cs := c18Case{U: cu.spec, Jitter: uint64(r.Int63()), Mode: "jitter"}
	if r.Intn(4) == 0 {
		cs.Cfg.Planner, cs.Cfg.TTLms = "cached", 3600000
	}
	for si := 0; si < 3; si++ {
		marker := fmt.Sprintf("mk-%d-%d", idx, si)
		op := genSubOp(r, cu.mono, marker)
		if op == nil {
			return nil, nil
		}
		cs.Subs = append(cs.Subs, subSpec{ID: fmt.Sprintf("s%d", si), Op: *op, Marker: marker})
	}
	cs.Upstream = pick(r, c18Upstreams)
	if idx < nj && idx%(nj/p.heartbeatCases(c)) == 3 { // spread over the batches: each takes > 4 s
		// keep-alive overlap: events stream on two subscriptions for longer than the 4 s keep-alive
		// period while every frame header on the client connection is followed by a pause
		cs.Mode, cs.Upstream = "heartbeat", "stream-long"
		cs.Cfg.WriteGapUs = 3000 + r.Intn(12000)
		cs.History = []c18Action{{Kind: "init"}, {Kind: "start", Sub: 0}, {Kind: "start", Sub: 1}, {Kind: "wait-ka", Sub: 1}, {Kind: pick(r, []string{"stop", "terminate", "tcpclose"}), Sub: 0}}
		return mustJSON(cs), nil
	}
	if idx >= nj {
		pr := c18Pairs()[(idx-nj)%len(c18Pairs())]
		cs.Mode, cs.Wait, cs.Until = "directed", pr[0], pr[1]
		cs.Upstream = pick(r, []string{"stream", "stream", "complete-early"})
		// a canonical history that reaches Close, Listen's defer and the handler clean-up
		cs.History = []c18Action{{Kind: "init"}, {Kind: "start", Sub: 0}, {Kind: "wait", SleepUs: 800 + r.Intn(800)}, {Kind: "start", Sub: 1}, {Kind: "wait", SleepUs: r.Intn(600)}, {Kind: "stop", Sub: 0}, {Kind: "wait", SleepUs: r.Intn(600)}}
		cs.History = append(cs.History, c18Action{Kind: pick(r, []string{"terminate", "tcpclose", "stop"}), Sub: 1})
		if r.Intn(2) == 0 {
			// the same id started again while its first run is active, then stopped: the entry looked up by `stop`
			// (and by the final clean-up) must be the second run's
			cs.History = []c18Action{{Kind: "init"}, {Kind: "start", Sub: 0}, {Kind: "wait", SleepUs: 800 + r.Intn(800)}, {Kind: "start", Sub: 0}, {Kind: "wait", SleepUs: 1500 + r.Intn(2500)},
				{Kind: "stop", Sub: 0}, {Kind: "wait", SleepUs: r.Intn(600)}, {Kind: pick(r, []string{"terminate", "tcpclose", "wait"}), Sub: 1}}
		}
		return mustJSON(cs), nil
	}
	kinds := []string{"start", "start", "start", "stop", "stop", "stop", "dupstart", "stopunknown", "wait", "wait", "malformed", "nopayload", "unknown", "invalidquery", "partial", "terminate", "tcpclose"}
	cs.History = append(cs.History, c18Action{Kind: "init"})
	n := 2 + r.Intn(8)
	for i := 0; i < n; i++ {
		k := pick(r, kinds)
		a := c18Action{Kind: k, Sub: r.Intn(3)}
		if k == "wait" {
			a.SleepUs = r.Intn(3000)
		}
		cs.History = append(cs.History, a)
		if k == "terminate" || k == "tcpclose" || k == "partial" || k == "malformed" || k == "unknown" || k == "nopayload" || k == "invalidquery" {
			break // these end the connection (by protocol or by the gateway's own policy)
		}
	}
	return mustJSON(cs), nil
}

var subFrames = []string{
	"pebbles.(*subscriptionEntry).Listen", "pebbles.(*subscriptionEntry).Close", "pebbles.(*Gateway).subscriptionHandler", "pebbles.sendHeartbeat",
	"queryer.(*MultiOpQueryer).Subscribe", "pebbles.(*Gateway).newSubscriptionEntry",
}

// subGoroutines returns goroutine id -> first matching frame for goroutines running pebbles subscription code.
func subGoroutines() map[string]string {
	buf := make([]byte, 4<<20)
	n := runtime.Stack(buf, true)
	out := map[string]string{}
	for _, g := range strings.Split(string(buf[:n]), "\n\n") {
		for _, f := range subFrames {
			if strings.Contains(g, f) {
				head := g
				if i := strings.Index(g, "\n"); i >= 0 {
					head = g[:i]
				}
				id := strings.Fields(head)
				key := head
				if len(id) >= 2 {
					key = id[1]
				}
				out[key] = f + " :: " + head
				break
			}
		}
	}
	return out
}

func (p c18) Exec(c *run.Ctx, idx int, raw json.RawMessage) []run.Result {
	var sp c18Case
	if err := json.Unmarshal(raw, &sp); err != nil {
		return []run.Result{{Verdict: "broken", Message: err.Error()}}
	}
	res := run.Result{Verdict: run.Held, Counters: map[string]int{}}
	settle := 3 * time.Second
	if c.Tier == "thorough" {
		settle = 8 * time.Second
	}
	baseline := subGoroutines()
	r, err := rig.NewWS(sp.U, sp.Cfg)
	if err != nil {
		if r != nil {
			r.CloseWS()
		}
		res.Verdict = run.Skip
		res.Counters["setup_failed"] = 1
		return []run.Result{res}
	}
	// child-step lookups take a while, so that stop / terminate / disconnect often arrive while Listen is busy
	for _, s := range r.Services {
		s.Before = func(cl *fake.Call) { time.Sleep(time.Duration(300+sp.Jitter%1700) * time.Microsecond) }
	}
	for _, u := range r.Upstreams {
		switch sp.Upstream {
		case "refuse":
			u.Refuse = true
		}
		mode := sp.Upstream
		u.Script = func(marker string, req *engine.Request) []fake.SubEvent {
			var s []fake.SubEvent
			switch mode {
			case "complete-early":
				s = append(s, fake.SubEvent{Kind: "data"}, fake.SubEvent{Kind: "data"}, fake.SubEvent{Kind: "sleep", SleepUs: 300}, fake.SubEvent{Kind: "complete"})
			case "error-early":
				s = append(s, fake.SubEvent{Kind: "data"}, fake.SubEvent{Kind: "error-frame"})
			case "close-early":
				s = append(s, fake.SubEvent{Kind: "data"}, fake.SubEvent{Kind: "sleep", SleepUs: 200}, fake.SubEvent{Kind: "close"})
			case "close-after-upgrade":
				s = append(s, fake.SubEvent{Kind: "close"})
			case "stream-long":
				for i := 0; i < 6000; i++ {
					s = append(s, fake.SubEvent{Kind: "data"}, fake.SubEvent{Kind: "sleep", SleepUs: 1000})
				}
			default:
				for i := 0; i < 400; i++ {
					s = append(s, fake.SubEvent{Kind: "data"}, fake.SubEvent{Kind: "sleep", SleepUs: 150})
				}
			}
			return s
		}
	}
	opts := sched.Options{Seed: sp.Jitter, Jitter: sp.Mode != "heartbeat", Record: true, MaxEvents: 20000}
	if sp.Mode == "directed" {
		opts.Constraints = []sched.Constraint{{Wait: sp.Wait, Until: sp.Until}}
		opts.Timeout = 25 * time.Millisecond
	}
	sched.Install(opts)
	cl, derr := rig.DialWS(r.Server.URL)
	if derr != nil {
		sched.Uninstall()
		r.CloseWS()
		return []run.Result{{Verdict: "broken", Message: "cannot dial gateway: " + derr.Error()}}
	}
	started, tornDown := 0, false
	stopped := map[string]bool{} // markers whose subscription was stopped by the client and not started again
	connEnded := false
	for _, a := range sp.History {
		s := sp.Subs[a.Sub%len(sp.Subs)]
		switch a.Kind {
		case "init":
			cl.Send(map[string]any{"type": "connection_init"})
		case "start":
			cl.Send(startMsg(s))
			started++
			delete(stopped, s.Marker)
		case "dupstart":
			cl.Send(startMsg(s))
			cl.Send(startMsg(s))
			started++
			delete(stopped, s.Marker)
		case "stop":
			cl.Send(map[string]any{"id": s.ID, "type": "stop"})
			if started > 0 {
				tornDown = true
			}
			stopped[s.Marker] = true
		case "stopunknown":
			cl.Send(map[string]any{"id": "nope", "type": "stop"})
		case "terminate":
			cl.Send(map[string]any{"type": "connection_terminate"})
			if started > 0 {
				tornDown = true
			}
		case "tcpclose":
			connEnded = true
			cl.Close()
			if started > 0 {
				tornDown = true
			}
		case "partial":
			cl.SendPartialFrame([]byte(`{"type":"start","id":"p","payload":{"query":"subscription { x }"}}`))
			time.Sleep(300 * time.Microsecond)
			cl.Close()
		case "malformed":
			cl.SendRaw([]byte(`{"type": "start", "id": `))
		case "nopayload":
			cl.Send(map[string]any{"id": "np", "type": "start"})
		case "unknown":
			cl.Send(map[string]any{"id": "u", "type": "made_up_type"})
		case "invalidquery":
			q := "subscription { nopeField }"
			if a.Sub == 1 && r.Mono.Subscription != nil && len(r.Mono.Subscription.Fields) > 0 {
				// a validation error that quotes a long non-ASCII literal of the operation
				q = "subscription($v: Int = \"" + strings.Repeat("日本語のテキスト", 12+idx%7) + "\") { " + r.Mono.Subscription.Fields[0].Name + " }"
			}
			cl.Send(map[string]any{"id": "iq", "type": "start", "payload": map[string]any{"query": q}})
		case "wait":
			time.Sleep(time.Duration(a.SleepUs) * time.Microsecond)
		case "wait-ka":
			// until a.Sub keep-alive frames were seen (one per 4 s after connection_init)
			kaDeadline := time.Now().Add(7 * time.Second)
			for {
				ka, data := 0, 0
				for _, f := range cl.Frames() {
					switch f.Type {
					case "ka":
						ka++
					case "data":
						data++
					}
				}
				res.Counters["keepalives_seen"], res.Counters["frames_during_keepalive_window"] = ka, data
				if closed, _ := cl.Closed(); ka >= a.Sub || closed || time.Now().After(kaDeadline) {
					break
				}
				time.Sleep(20 * time.Millisecond)
			}
			// a little longer: the frame the tick may have landed in has to arrive
			time.Sleep(60 * time.Millisecond)
		}
		time.Sleep(time.Duration(50+sp.Jitter%200) * time.Microsecond)
	}
	// a stopped subscription must release its upstream connection while the client connection stays open
	var viol []violation
	add := func(sym, msg string) { viol = append(viol, violation{sym, msg}) }
	if len(stopped) > 0 && !connEnded {
		if closed, _ := cl.Closed(); !closed {
			stopDeadline := time.Now().Add(settle / 2)
			for {
				var open []string
				for _, u := range r.Upstreams {
					for _, uc := range u.Snapshot() {
						if stopped[uc.Marker] && atomic.LoadInt32(&uc.Closed) == 0 {
							open = append(open, uc.Marker)
						}
					}
				}
				if len(open) == 0 {
					res.Counters["stops_checked"] += len(stopped)
					break
				}
				if time.Now().After(stopDeadline) {
					if closed, _ := cl.Closed(); !closed {
						add("upstream-connection-open-after-stop", fmt.Sprintf("%v after `stop` the upstream connection(s) of %v are still open although the client connection is alive", settle/2, open))
					}
					break
				}
				time.Sleep(3 * time.Millisecond)
			}
		}
	}
	// let things run briefly, then end the connection from the client side
	time.Sleep(time.Duration(500+sp.Jitter%1500) * time.Microsecond)
	cl.Close()
	if started > 0 {
		tornDown = true
	}
	// ---- settle: all upstream connections of this case closed, no subscription goroutine left
	deadline := time.Now().Add(settle)
	var openUp []string
	var left map[string]string
	for {
		openUp = openUp[:0]
		for _, u := range r.Upstreams {
			for _, uc := range u.Snapshot() {
				if atomic.LoadInt32(&uc.Closed) == 0 {
					openUp = append(openUp, fmt.Sprintf("%s marker=%s emitted=%d", uc.Service, uc.Marker, atomic.LoadInt32(&uc.Emitted)))
				}
			}
		}
		left = map[string]string{}
		for id, f := range subGoroutines() {
			if _, was := baseline[id]; !was {
				left[id] = f
			}
		}
		if len(openUp) == 0 && len(left) == 0 {
			break
		}
		if time.Now().After(deadline) {
			break
		}
		time.Sleep(5 * time.Millisecond)
	}
	evs := sched.Events()
	sched.Uninstall()
	res.Traces = sched.TraceHashes(evs)
	res.Counters["hook_events"] = len(evs)
	sat, unsat := sched.Stats()
	_ = sat
	_ = unsat
	if len(openUp) > 0 {
		add("upstream-connection-left-open", fmt.Sprintf("after the client connection ended and %v of settling: %v", settle, openUp))
	}
	if len(left) > 0 {
		var fs []string
		for _, f := range left {
			fs = append(fs, f)
		}
		add("goroutine-left-behind", fmt.Sprintf("after %v of settling: %s", settle, head(strings.Join(fs, " | "), 1200)))
	}
	for _, f := range cl.Frames() {
		if f.Problem != "" {
			add("malformed-frame", fmt.Sprintf("frame %d: %s raw=%s", f.Seq, f.Problem, head(f.Raw, 200)))
			break
		}
	}
	r.CloseWS()
	var hist []string
	for _, a := range sp.History {
		hist = append(hist, fmt.Sprintf("%s(%d)", a.Kind, a.Sub))
	}
	res.NonTrivial = started > 0 && tornDown
	res.Key = hashStr(strings.Join(hist, ","), sp.Upstream, sp.Mode, sp.Wait, sp.Until, fmt.Sprint(sp.Jitter))
	res.Tags = []string{"upstream:" + sp.Upstream, "mode:" + sp.Mode}
	res.Counters["upstream:"+sp.Upstream] = 1
	res.Counters["mode:"+sp.Mode] = 1
	if len(viol) == 0 && sp.Mode == "heartbeat" && res.Counters["keepalives_seen"] < 1 {
		res.Verdict, res.Symptom = run.Inconclusive, "keep-alive-tick-not-observed"
		res.Message = fmt.Sprintf("only %d keep-alive frame(s) seen within the window; the overlap was not exercised", res.Counters["keepalives_seen"])
		return []run.Result{res}
	}
	if len(viol) == 0 {
		if res.NonTrivial && (idx%11 == 0 || sp.Mode == "heartbeat") {
			res.Sample = map[string]any{"history": hist, "upstream": sp.Upstream, "mode": sp.Mode, "constraint": sp.Wait + " until " + sp.Until, "hook_events": len(evs)}
		}
		return []run.Result{res}
	}
	var out []run.Result
	seen := map[string]bool{}
	for _, v := range viol {
		if seen[v.symptom] {
			continue
		}
		seen[v.symptom] = true
		r2 := res
		r2.Verdict, r2.Symptom = run.Violated, v.symptom
		r2.Message = v.msg + "\nhistory: " + strings.Join(hist, ",") + " upstream=" + sp.Upstream + " mode=" + sp.Mode + " " + sp.Wait + "->" + sp.Until
		if len(out) > 0 {
			r2.Key, r2.NonTrivial, r2.Counters, r2.Traces = "", false, nil, nil
		}
		out = append(out, r2)
	}
	return out
}

func (p c18) SpecTags(raw json.RawMessage) []string {
	var sp c18Case
	if json.Unmarshal(raw, &sp) != nil {
		return nil
	}
	t := []string{"upstream:" + sp.Upstream, "mode:" + sp.Mode}
	for _, a := range sp.History {
		t = append(t, "act:"+a.Kind)
	}
	return t
}
