package props

import (
	"encoding/json"
	"fmt"
	"sort"
	"strings"

	"verif/harness/internal/fake"
	"verif/harness/internal/rig"
	"verif/harness/internal/run"

	"github.com/vektah/gqlparser/v2"
	"github.com/vektah/gqlparser/v2/ast"
)

// C04 — the routing table names a real owner for every routable field.
type c04 struct{}

func (c04) ID() string            { return "C04" }
func (c04) Level() string         { return "exploration" }
func (c04) RaceIsViolation() bool { return false }
func (c04) Rule() string {
	return "cases = the C03 corpus (generated mergeable universes x every permutation of the service list x merger); " +
		"oracle over MergeResult.TypeURLMap: each root field routes to the one declaring service; every other non-id field of every object type routes to a service whose SDL declares it on that type; " +
		"GetTypeIsImplementsNode(T) iff T implements Node in the merged schema; GetURLs() = set of services that declare a routable field; no merged object field without a route; " +
		"distinct = distinct (universe hash, permutation, merger); non-trivial = k >= 2"
}
func (c04) Assumptions() []string {
	return []string{"service SDLs are the ground truth for 'declares'", "each generated service owns at least one exclusively-owned Query field"}
}
func (p c04) NumCases(c *run.Ctx) int { return c03Universes(c.Tier) * permSlots }
func (p c04) Gen(c *run.Ctx, idx int) (json.RawMessage, error) {
	return genMergeCase(c, idx, "merge")
}

func isRootName(n string) bool { return n == "Query" || n == "Mutation" || n == "Subscription" }

func implementsNode(d *ast.Definition) bool {
	for _, i := range d.Interfaces {
		if i == "Node" {
			return true
		}
	}
	return false
}

func (p c04) Exec(c *run.Ctx, idx int, raw json.RawMessage) []run.Result {
	var sp mergeCase
	if err := json.Unmarshal(raw, &sp); err != nil {
		return []run.Result{{Verdict: "broken", Message: err.Error()}}
	}
	res := run.Result{Verdict: run.Held, Counters: map[string]int{}}
	k := len(sp.U.Services)
	res.NonTrivial = k >= 2
	res.Key = hashStr(specHashOf(sp.U), fmt.Sprint(sp.Perm), fmt.Sprint(sp.Sanitize))
	tags := map[string]bool{fmt.Sprintf("k=%d", k): true}
	_, schemas, err := serviceFacts(sp.U.Services, factsNone)
	if err != nil {
		return []run.Result{{Verdict: "broken", Message: "generator bug: " + err.Error()}}
	}
	mo := doMerge(sp.U.Services, sp.Perm, sp.Sanitize)
	if mo.panic != nil || mo.err != nil {
		res.Verdict = run.Skip
		res.Counters["merge_failed"] = 1
		res.Message = fmt.Sprint(mo.err, mo.panic)
		return []run.Result{res}
	}
	tm := mo.res.TypeURLMap
	urlToSvc := map[string]int{}
	for i := range sp.U.Services {
		urlToSvc[svcURL(i)] = i
	}
	declares := func(svc int, t, f string) bool {
		d := schemas[svc].Types[t]
		return d != nil && d.Fields.ForName(f) != nil
	}
	var problems []violation
	add := func(sym, msg string) { problems = append(problems, violation{sym, msg}) }
	contributing := map[string]bool{}
	for i, sc := range schemas {
		for n, d := range sc.Types {
			if d.Kind != ast.Object || strings.HasPrefix(n, "__") {
				continue
			}
			for _, f := range d.Fields {
				if strings.HasPrefix(f.Name, "__") || f.Name == "id" {
					continue
				}
				if n == "Query" && f.Name == "node" {
					continue
				}
				contributing[svcURL(i)] = true
			}
		}
	}
	checked := 0
	typeNames := sortedKeys(mo.res.Schema.Types)
	for _, tn := range typeNames {
		d := mo.res.Schema.Types[tn]
		if d.Kind != ast.Object || strings.HasPrefix(tn, "__") {
			continue
		}
		isNode, ok := tm.GetTypeIsImplementsNode(tn)
		if !ok {
			if implementsNode(d) {
				add("node-flag-missing", fmt.Sprintf("type %s implements Node but has no routing entry", tn))
			}
		} else if isNode != implementsNode(d) {
			add("node-flag-wrong", fmt.Sprintf("type %s: routing table says implementsNode=%v, merged schema says %v", tn, isNode, implementsNode(d)))
		}
		for _, f := range d.Fields {
			if strings.HasPrefix(f.Name, "__") || f.Name == "id" {
				continue
			}
			if tn == "Query" && f.Name == "node" {
				continue
			}
			checked++
			url, ok := tm.Get(tn, f.Name)
			if !ok {
				add("field-without-route", fmt.Sprintf("%s.%s has no route", tn, f.Name))
				continue
			}
			svc, known := urlToSvc[url]
			if !known {
				add("route-to-unknown-service", fmt.Sprintf("%s.%s -> %q", tn, f.Name, url))
				continue
			}
			if !declares(svc, tn, f.Name) {
				add("route-to-non-declaring-service", fmt.Sprintf("%s.%s routed to %s which does not declare it", tn, f.Name, sp.U.Services[svc].Name))
			}
			if isRootName(tn) {
				n := 0
				for i := range schemas {
					if declares(i, tn, f.Name) {
						n++
					}
				}
				if n != 1 {
					add("HARNESS-root-field-declared-by-several", fmt.Sprintf("%s.%s declared by %d services", tn, f.Name, n))
				}
			}
		}
	}
	// routes for things not in the merged schema
	for tn, props := range tm {
		d := mo.res.Schema.Types[tn]
		for fn := range props.Fields {
			if d == nil || d.Fields.ForName(fn) == nil {
				add("route-for-unknown-field", fmt.Sprintf("routing table has %s.%s which the merged schema lacks", tn, fn))
			}
		}
	}
	// the per-type accessor the planner routes by: the owners of a type are the owners of its fields, whatever was asked before
	{
		names := sortedKeys(tm)
		order := append(append([]string{}, names...), names...)
		for i := len(names) - 1; i >= 0; i-- {
			order = append(order, names[i])
		}
		for _, tn := range order {
			want := map[string]bool{}
			for _, u := range tm[tn].Fields {
				want[u] = true
			}
			got, ok := tm.GetForType(tn)
			if !ok || strings.Join(got, " ") != strings.Join(sortedKeys(want), " ") {
				add("owners-of-type-wrong", fmt.Sprintf("GetForType(%s) = %v (ok=%v), the fields of the type are routed to %v", tn, got, ok, sortedKeys(want)))
				break
			}
			checked++
		}
	}
	gotURLs := map[string]bool{}
	for _, u := range tm.GetURLs() {
		gotURLs[u] = true
	}
	var a, b []string
	for u := range contributing {
		if !gotURLs[u] {
			a = append(a, u)
		}
	}
	for u := range gotURLs {
		if !contributing[u] {
			b = append(b, u)
		}
	}
	sort.Strings(a)
	sort.Strings(b)
	if len(a)+len(b) > 0 {
		add("routed-services-mismatch", fmt.Sprintf("contributing but not routed: %v; routed but not contributing: %v", a, b))
	}
	// history: a second Merge over the same parsed schema objects without the last service: its routing
	// table must name only services of that second set, each declaring the field (fresh SDL as ground truth)
	if k >= 2 {
		parsed := make([]*ast.Schema, k)
		for i := range sp.U.Services {
			parsed[i], _ = gqlparser.LoadSchema(&ast.Source{Name: sp.U.Services[i].Name, Input: sp.U.Services[i].SDL})
		}
		first := doMergeParsed(parsed, sp.Perm, sp.Sanitize)
		sub := append([]int{}, sp.Perm[:len(sp.Perm)-1]...)
		second := doMergeParsed(parsed, sub, sp.Sanitize)
		if first.err == nil && first.panic == nil && second.err == nil && second.panic == nil {
			inSub := map[int]bool{}
			for _, i := range sub {
				inSub[i] = true
			}
			res.Counters["second_merge_checked"] = 1
			for _, tn := range sortedKeys(second.res.TypeURLMap) {
				for fn, url := range second.res.TypeURLMap[tn].Fields {
					svc, known := urlToSvc[url]
					switch {
					case !known || !inSub[svc]:
						add("second-merge: route-to-service-outside-the-merge", fmt.Sprintf("after Merge(%v), Merge(%v) over the same parsed schemas routes %s.%s to %q", sp.Perm, sub, tn, fn, url))
					case !declares(svc, tn, fn):
						add("second-merge: route-to-non-declaring-service", fmt.Sprintf("after Merge(%v), Merge(%v) over the same parsed schemas routes %s.%s to %s which does not declare it", sp.Perm, sub, tn, fn, sp.U.Services[svc].Name))
					}
				}
			}
		}
	}
	// start-up with one service failing its introspection (real introspector over the fake transport): the gateway
	// either refuses to start or, if it starts, still routes every field to a service that declares it
	if k >= 2 && idx%4 == 0 {
		if rg, rerr := rig.NewServices(sp.U); rerr == nil {
			rg.Cfg = rig.Config{Introspect: "e2e"}
			if sp.Sanitize {
				rg.Cfg.Merger = "sanitize"
			}
			down := sp.Perm[(idx/4)%len(sp.Perm)]
			kind := []string{"transport-error", "status-500", "errors", "non-json"}[(idx/8)%4]
			rg.Services[down].FaultFn = func(cl *fake.Call) *fake.Fault { return &fake.Fault{Kind: kind, Pos: -1} }
			var urls []string
			urlIdx := map[string]int{}
			for _, i := range sp.Perm {
				urls = append(urls, rg.URLs[i])
				urlIdx[rg.URLs[i]] = i
			}
			serr := rg.StartGateway(urls)
			res.Counters["startup_with_failed_introspection"] = 1
			if serr == nil && rg.Merged != nil {
				res.Counters["started_despite_failed_introspection"] = 1
				for _, tn := range sortedKeys(rg.Merged.TypeURLMap) {
					for fn, url := range rg.Merged.TypeURLMap[tn].Fields {
						if svc, known := urlIdx[url]; !known || !declares(svc, tn, fn) {
							add("startup-with-failed-introspection: route-to-non-declaring-service", fmt.Sprintf("service %s answered its introspection with %s; the gateway started and routes %s.%s to %q, which does not declare it", sp.U.Services[down].Name, kind, tn, fn, url))
						}
					}
				}
			} else if gp, isPanic := serr.(*rig.GatewayPanic); isPanic {
				add("startup-with-failed-introspection: panic", fmt.Sprintf("%v\n%s", gp.Val, gp.Stack))
			}
			rg.Close()
		}
	}
	res.Counters["fields_checked"] = checked
	res.Tags = sortedKeys(tags)
	if len(problems) == 0 {
		if res.NonTrivial {
			res.Sample = map[string]any{"services": k, "perm": sp.Perm, "fields_checked": checked, "urls": tm.GetURLs()}
		}
		return []run.Result{res}
	}
	var out []run.Result
	seen := map[string]bool{}
	for _, v := range problems {
		if seen[v.symptom] {
			continue
		}
		seen[v.symptom] = true
		r2 := res
		if strings.HasPrefix(v.symptom, "HARNESS") {
			r2.Verdict = "broken"
		} else {
			r2.Verdict = run.Violated
		}
		r2.Symptom, r2.Message = v.symptom, v.msg
		if len(out) > 0 {
			r2.Key, r2.NonTrivial, r2.Counters = "", false, nil
		}
		out = append(out, r2)
	}
	return out
}
