package props

import (
	"encoding/json"
	"fmt"
	"github.com/buildbuildio/pebbles/common"
	"reflect"
	"sort"
	"strings"

	"verif/harness/internal/gen"
	"verif/harness/internal/rig"
	"verif/harness/internal/run"

	"github.com/buildbuildio/pebbles/planner"
	"github.com/vektah/gqlparser/v2"
	"github.com/vektah/gqlparser/v2/ast"
	"github.com/vektah/gqlparser/v2/validator"
)

// C02 — every sub-request is valid for, and owned by, its service.
type c02 struct{}

func (c02) ID() string            { return "C02" }
func (c02) Level() string         { return "exploration" }
func (c02) RaceIsViolation() bool { return false }
func (c02) Rule() string {
	return "cases = generated universe x valid client operation (same generators as C01, variable-heavy profile on a third of the cases); " +
		"plan-level oracle: every QueryPlanStep.QueryString of SequentialPlanner.Plan validates (gqlparser) against the SDL of the service it is routed to, " +
		"client field coordinates (response path, concrete type, field, canonical args, effective directives) are covered by steps routed to a declaring service, steps add only id/__typename and each added helper is in ScrubFields; " +
		"wire-level oracle: every request a fake service receives validates against its own SDL, its variables coerce, and each client variable it uses carries the client-level coerced value or default; " +
		"distinct = distinct (service SDL hash, sub-request text); non-trivial = operation planned into >= 2 steps"
}
func (c02) Assumptions() []string {
	return []string{
		"gqlparser's validator (also used by pebbles for client operations) is the judge of sub-request validity, but against the *service's* SDL, which pebbles never does",
		"coordinate flattening pushes fragment directives down to fields (semantics preserving), so hoisting is not penalised",
	}
}
func (p c02) NumCases(c *run.Ctx) int {
	if c.Tier == "thorough" {
		return 250 * 300
	}
	return 12 * 130
}

func (p c02) Gen(c *run.Ctx, idx int) (json.RawMessage, error) {
	per := 130
	if c.Tier == "thorough" {
		per = 300
	}
	uidx := idx / per
	cu, err := universe(c.Seed, "std", uidx, stdProfile)
	if uidx%6 == 5 {
		cu, err = universe(c.Seed, "hostile", uidx, hostileProfile)
	}
	if uidx%6 == 4 {
		cu, err = universe(c.Seed, "odd", uidx, oddNamesProfile)
	}
	if uidx%6 == 3 {
		cu, err = universe(c.Seed, "abslist", uidx, abstractListProfile)
	}
	if uidx%6 == 2 {
		cu, err = universe(c.Seed, "many", uidx, manyServicesProfile)
	}
	if err != nil {
		return nil, err
	}
	r := rng(c.Seed, "c02/op", idx)
	prof := gen.DefaultOpProfile()
	prof.Pool = cu.spec.Data.Pool
	prof.IDStyle = cu.spec.Data.IDStyle
	prof.HostileStrings = cu.spec.Data.Hostile
	if idx%4 == 1 {
		prof.PFragment, prof.PFragReuse = 0.25, 0.5
	}
	if idx%16 == 10 {
		prof.PRootTypename = 1
	}
	if idx%8 == 6 {
		prof.PDupKey = 0.3
	}
	if idx%3 == 0 {
		prof.PVar, prof.PVarDefault, prof.PArgsAlways = 0.7, 0.3, true
	}
	if idx%10 == 3 {
		prof.PVar, prof.PVarNamedID = 0.6, 0.7
	}
	if uidx%6 == 4 {
		prof.HostileAliases, prof.PAlias = true, 0.2
	}
	if r.Intn(6) == 0 && cu.mono.Mutation != nil {
		prof.Kind = ast.Mutation
	}
	op := genValidOp(r, cu.mono, prof)
	if op == nil {
		return nil, nil
	}
	cfg := rig.Config{}
	if r.Intn(3) == 0 {
		cfg.Merger = "sanitize"
	}
	return mustJSON(opCase{U: cu.spec, Cfg: cfg, Op: *op, UIdx: uidx}), nil
}

// gatewayOwnID reports whether $id in a sub-request is only the gateway's lookup variable:
// the sub-request is rooted at node(id: $id) and $id occurs nowhere else in it.
func gatewayOwnID(op *ast.OperationDefinition) bool {
	if len(op.SelectionSet) != 1 {
		return false
	}
	root, ok := op.SelectionSet[0].(*ast.Field)
	if !ok || root.Name != "node" || len(root.Arguments) != 1 || root.Arguments[0].Value == nil || root.Arguments[0].Value.Kind != ast.Variable || root.Arguments[0].Value.Raw != "id" {
		return false
	}
	uses := 0
	var walk func(set ast.SelectionSet)
	walk = func(set ast.SelectionSet) {
		for _, sel := range set {
			switch x := sel.(type) {
			case *ast.Field:
				for _, a := range x.Arguments {
					if usesVarNamed(a.Value, "id") {
						uses++
					}
				}
				for _, d := range x.Directives {
					for _, a := range d.Arguments {
						if usesVarNamed(a.Value, "id") {
							uses++
						}
					}
				}
				walk(x.SelectionSet)
			case *ast.InlineFragment:
				walk(x.SelectionSet)
			case *ast.FragmentSpread:
				if x.Definition != nil {
					walk(x.Definition.SelectionSet)
				}
			}
		}
	}
	walk(op.SelectionSet)
	return uses == 1
}

type coord struct {
	Path string
	Type string
	Fld  string
	Args string
	Dirs string
}

func (c coord) String() string {
	return fmt.Sprintf("%s %s.%s(%s)%s", c.Path, c.Type, c.Fld, c.Args, c.Dirs)
}

func printArgs(al ast.ArgumentList) string {
	var parts []string
	for _, a := range al {
		parts = append(parts, a.Name+":"+a.Value.String())
	}
	sort.Strings(parts)
	return strings.Join(parts, ",")
}

func printDirs(dl ast.DirectiveList) []string {
	var parts []string
	for _, d := range dl {
		parts = append(parts, "@"+d.Name+"("+printArgs(d.Arguments)+")")
	}
	return parts
}

func concreteTypes(s *ast.Schema, name string) []string {
	def := s.Types[name]
	if def == nil {
		return nil
	}
	if def.Kind == ast.Object {
		return []string{name}
	}
	var out []string
	for _, pt := range s.PossibleTypes[name] {
		out = append(out, pt.Name)
	}
	sort.Strings(out)
	return out
}

func typeApplies(s *ast.Schema, cond, concrete string) bool {
	if cond == "" || cond == concrete {
		return true
	}
	for _, pt := range s.PossibleTypes[cond] {
		if pt.Name == concrete {
			return true
		}
	}
	return false
}

// flattenCoords yields the coordinates selected below (path, concrete type ct).
func flattenCoords(s *ast.Schema, frags ast.FragmentDefinitionList, set ast.SelectionSet, ct string, path string, dirs []string, out map[coord]bool, depth int) {
	if depth > 40 {
		return
	}
	for _, sel := range set {
		switch x := sel.(type) {
		case *ast.Field:
			key := x.Alias
			if key == "" {
				key = x.Name
			}
			d := append(append([]string{}, dirs...), printDirs(x.Directives)...)
			sort.Strings(d)
			c := coord{Path: path + "/" + key, Type: ct, Fld: x.Name, Args: printArgs(x.Arguments), Dirs: strings.Join(d, "")}
			out[c] = true
			if len(x.SelectionSet) > 0 {
				var ft string
				if def := s.Types[ct]; def != nil {
					if fd := def.Fields.ForName(x.Name); fd != nil {
						ft = fd.Type.Name()
					}
				}
				if ft == "" && x.Definition != nil && x.Definition.Type != nil {
					ft = x.Definition.Type.Name()
				}
				for _, sub := range concreteTypes(s, ft) {
					flattenCoords(s, frags, x.SelectionSet, sub, path+"/"+key, nil, out, depth+1)
				}
			}
		case *ast.InlineFragment:
			if !typeApplies(s, x.TypeCondition, ct) {
				continue
			}
			flattenCoords(s, frags, x.SelectionSet, ct, path, append(append([]string{}, dirs...), printDirs(x.Directives)...), out, depth+1)
		case *ast.FragmentSpread:
			def := x.Definition
			if def == nil {
				def = frags.ForName(x.Name)
			}
			if def == nil || !typeApplies(s, def.TypeCondition, ct) {
				continue
			}
			flattenCoords(s, frags, def.SelectionSet, ct, path, append(append([]string{}, dirs...), printDirs(x.Directives)...), out, depth+1)
		}
	}
}

func stepCoords(s *ast.Schema, st *planner.QueryPlanStep, out map[coord]string) {
	path := ""
	for _, p := range st.InsertionPoint {
		path += "/" + p
	}
	set := st.SelectionSet
	parent := st.ParentType
	isRoot := parent == "Query" || parent == "Mutation" || parent == "Subscription"
	tmp := map[coord]bool{}
	if !isRoot {
		// unwrap node(id: $id) { ... on T { ... } }
		for _, sel := range set {
			f, ok := sel.(*ast.Field)
			if !ok || f.Name != "node" {
				continue
			}
			for _, ct := range concreteTypes(s, parent) {
				flattenCoords(s, nil, f.SelectionSet, ct, path, nil, tmp, 0)
			}
		}
	} else {
		flattenCoords(s, nil, set, parent, path, nil, tmp, 0)
	}
	for c := range tmp {
		out[c] = st.URL
	}
	for _, ch := range st.Then {
		stepCoords(s, ch, out)
	}
}

func (p c02) Exec(c *run.Ctx, idx int, raw json.RawMessage) []run.Result {
	var sp opCase
	if err := json.Unmarshal(raw, &sp); err != nil {
		return []run.Result{{Verdict: "broken", Message: "bad spec: " + err.Error()}}
	}
	res := run.Result{Verdict: run.Held, Counters: map[string]int{}}
	r, err := rig.New(sp.U, sp.Cfg)
	if r != nil {
		defer r.Close()
	}
	if err != nil {
		if r == nil {
			return []run.Result{{Verdict: "broken", Message: err.Error()}}
		}
		res.Verdict = run.Skip
		res.Counters["gateway_start_failed"] = 1
		return []run.Result{res}
	}
	gs := r.Merged.Schema
	doc, gerr := gqlparser.LoadQuery(gs, sp.Op.Query)
	if gerr != nil {
		res.Verdict = run.Skip
		res.Counters["op_invalid_on_gateway_schema"] = 1
		res.Message = gerr.Error()
		return []run.Result{res}
	}
	var opDef *ast.OperationDefinition
	if sp.Op.OperationName != "" {
		opDef = doc.Operations.ForName(sp.Op.OperationName)
	} else if len(doc.Operations) == 1 {
		opDef = doc.Operations[0]
	}
	if opDef == nil {
		res.Verdict = run.Skip
		return []run.Result{res}
	}
	clientVars, verr := validator.VariableValues(gs, opDef, nonNilMap(sp.Op.Variables))
	if verr != nil {
		res.Verdict = run.Skip
		res.Counters["client_variables_invalid"] = 1
		res.Message = verr.Error()
		return []run.Result{res}
	}
	tags := map[string]bool{}
	for _, t := range sp.Op.Tags {
		tags[t] = true
	}
	opFacts(gs, doc, opDef, sp.Op.Variables, tags)
	routeFacts(gs, opDef, r.Merged.TypeURLMap.Get, tags)
	keyReuseRouted(gs, opDef, r.Merged.TypeURLMap.Get, tags)
	res.Tags = sortedKeys(tags)

	svcByURL := map[string]*ast.Schema{}
	svcName := map[string]string{}
	for _, s := range r.Services {
		svcByURL[s.URL] = s.Schema
		svcName[s.URL] = s.Name
	}
	var viol []violation
	addV := func(sym, msg string) { viol = append(viol, violation{sym, msg}) }

	// ---- plan level
	steps, _, _, plan, perr := planShape(r, &sp.Op)
	res.NonTrivial = steps >= 2
	distinctSubs := map[string]bool{}
	if perr != nil {
		addV("plan-error: "+errTemplate(perr.Error()), perr.Error())
	} else {
		var walk func(sts []*planner.QueryPlanStep)
		walk = func(sts []*planner.QueryPlanStep) {
			for _, st := range sts {
				ss := svcByURL[st.URL]
				if st.URL == common.InternalServiceName {
					// the gateway's own step (__typename of the root, __schema, __type): never sent anywhere, and
					// it may hold nothing but fields of that kind
					for _, sel := range st.SelectionSet {
						// (the planner also parks there the part of a root node selection which needs no service)
						if f, ok := sel.(*ast.Field); ok && !strings.HasPrefix(f.Name, "__") && f.Name != "node" {
							addV("client-field-in-the-gateway's-own-step", fmt.Sprintf("field %s is planned into the internal step", f.Name))
						}
					}
					res.Counters["internal_steps"]++
				} else if ss == nil {
					addV("step-routed-to-unknown-service", fmt.Sprintf("step url %q query %s", st.URL, st.QueryString))
				} else {
					distinctSubs[hashStr(svcName[st.URL], st.QueryString)] = true
					if _, e := gqlparser.LoadQuery(ss, st.QueryString); e != nil {
						addV("plan-step-invalid: "+errTemplate(e.Error()), fmt.Sprintf("service %s rejects step query:\n%s\n%s", svcName[st.URL], st.QueryString, e.Error()))
					}
				}
				walk(st.Then)
			}
		}
		walk(plan.RootSteps)
		// coverage
		client := map[coord]bool{}
		rootType := map[ast.Operation]string{ast.Query: "Query", ast.Mutation: "Mutation", ast.Subscription: "Subscription"}[opDef.Operation]
		doc2, _ := gqlparser.LoadQuery(gs, sp.Op.Query) // fresh parse: Plan rewrites the AST in place
		var op2 *ast.OperationDefinition
		if sp.Op.OperationName != "" {
			op2 = doc2.Operations.ForName(sp.Op.OperationName)
		} else {
			op2 = doc2.Operations[0]
		}
		flattenCoords(gs, doc2.Fragments, op2.SelectionSet, rootType, "", nil, client, 0)
		got := map[coord]string{}
		for _, st := range plan.RootSteps {
			stepCoords(gs, st, got)
		}
		var missing, wrongSvc, extra, unscrubbed []string
		for cc := range client {
			if cc.Fld == "__typename" {
				continue
			}
			url, ok := got[cc]
			if !ok {
				missing = append(missing, cc.String())
				continue
			}
			ss := svcByURL[url]
			if ss == nil {
				continue
			}
			def := ss.Types[cc.Type]
			if def == nil || def.Fields.ForName(cc.Fld) == nil {
				wrongSvc = append(wrongSvc, cc.String()+" -> "+svcName[url])
			}
		}
		var overscrub []string
		for cc := range client {
			if (cc.Fld != "id" && cc.Fld != "__typename") || cc.Path != "/"+strings.Join(strings.Split(strings.TrimPrefix(cc.Path, "/"), "/"), "/") {
				continue
			}
			parts := strings.Split(strings.TrimPrefix(cc.Path, "/"), "/")
			if parts[len(parts)-1] != cc.Fld { // aliased: the scrub table works on response keys == field names only
				continue
			}
			for _, f := range plan.ScrubFields.Get(parts[:len(parts)-1], cc.Type) {
				if f == cc.Fld {
					overscrub = append(overscrub, cc.String())
				}
			}
		}
		sort.Strings(overscrub)
		if len(overscrub) > 0 {
			addV("client-field-registered-for-scrub", "fields the client selected are registered for removal: "+strings.Join(overscrub, "; "))
		}
		for gc := range got {
			if client[gc] {
				continue
			}
			if gc.Fld != "id" && gc.Fld != "__typename" {
				extra = append(extra, gc.String())
				continue
			}
			if gc.Args != "" || gc.Dirs != "" {
				continue
			}
			// helper: must be registered for scrubbing unless the client selected the same key at that path+type
			clientHas := false
			for cc := range client {
				if cc.Path == gc.Path && cc.Type == gc.Type && cc.Fld == gc.Fld {
					clientHas = true
				}
			}
			if clientHas {
				continue
			}
			parts := strings.Split(strings.TrimPrefix(gc.Path, "/"), "/")
			parent := parts[:len(parts)-1]
			ok := false
			for _, f := range plan.ScrubFields.Get(parent, gc.Type) {
				if f == gc.Fld {
					ok = true
				}
			}
			if !ok {
				unscrubbed = append(unscrubbed, gc.String())
			}
		}
		sort.Strings(missing)
		sort.Strings(wrongSvc)
		sort.Strings(extra)
		sort.Strings(unscrubbed)
		if len(missing) > 0 {
			addV("coverage-missing", "client coordinates asked of no service: "+strings.Join(missing, "; "))
		}
		if len(wrongSvc) > 0 {
			addV("coverage-wrong-service", "coordinates sent to a service that does not declare them: "+strings.Join(wrongSvc, "; "))
		}
		if len(extra) > 0 {
			addV("coverage-extra", "sub-requests add non-helper fields: "+strings.Join(extra, "; "))
		}
		if len(unscrubbed) > 0 {
			addV("helper-not-registered-for-scrub", strings.Join(unscrubbed, "; "))
		}
		res.Counters["client_coordinates"] = len(client)
		res.Counters["plan_steps"] = steps
	}

	// ---- wire level
	mark := r.Log.Len()
	hr := r.Query(&sp.Op)
	if hr.Panic != nil {
		addV("handler-panic: "+errTemplate(fmt.Sprint(hr.Panic)), fmt.Sprint(hr.Panic)+"\n"+hr.Stack)
	}
	evs := r.Log.Since(mark)
	res.Counters["downstream_requests"] = len(evs)
	withVars := 0
	for _, e := range evs {
		distinctSubs[hashStr(e.Service, e.Query)] = true
		if len(e.Variables) > 0 {
			withVars++
		}
		if !e.Valid {
			addV("wire-subrequest-invalid: "+errTemplate(e.ValidErr), fmt.Sprintf("service %s rejects:\n%s\n%s", e.Service, e.Query, e.ValidErr))
			continue
		}
		if e.VarErr != "" {
			addV("wire-variables-do-not-coerce: "+errTemplate(e.VarErr), fmt.Sprintf("service %s: %s\nquery %s\nvariables %s", e.Service, e.VarErr, e.Query, gen.MarshalVars(e.Variables)))
			continue
		}
		// variable values
		var ss *ast.Schema
		for _, s := range r.Services {
			if s.Name == e.Service {
				ss = s.Schema
			}
		}
		sdoc, _ := gqlparser.LoadQuery(ss, e.Query)
		if sdoc == nil {
			continue
		}
		var sop *ast.OperationDefinition
		if e.OpName != "" {
			sop = sdoc.Operations.ForName(e.OpName)
		}
		if sop == nil && len(sdoc.Operations) > 0 {
			sop = sdoc.Operations[0]
		}
		subVars, _ := validator.VariableValues(ss, sop, nonNilMap(e.Variables))
		for _, vd := range sop.VariableDefinitions {
			if vd.Variable == "id" && (!tags["f:var-named-id"] || gatewayOwnID(sop)) {
				continue // the gateway's own lookup variable, not the client's
			}
			cv, chas := clientVars[vd.Variable]
			sv, shas := subVars[vd.Variable]
			if chas != shas || !reflect.DeepEqual(rig.Roundtrip(cv), rig.Roundtrip(sv)) {
				addV("variable-value-mismatch", fmt.Sprintf("variable $%s: client-level value %s (present=%v), service %s received %s (present=%v)\nsub-request: %s",
					vd.Variable, jsonStr(cv), chas, e.Service, jsonStr(sv), shas, e.Query))
			}
		}
	}
	res.Counters["downstream_requests_with_variables"] = withVars
	res.Counters["distinct_subrequests"] = len(distinctSubs)
	res.Key = hashStr(specHashOf(sp.U), sp.Op.Query, gen.MarshalVars(sp.Op.Variables))
	for k := range distinctSubs {
		res.Traces = append(res.Traces, k)
	}
	if len(viol) == 0 {
		if res.NonTrivial {
			var subs []string
			for _, e := range evs {
				subs = append(subs, e.Service+": "+strings.Join(strings.Fields(e.Query), " "))
			}
			res.Sample = map[string]any{"query": sp.Op.Query, "variables": sp.Op.Variables, "subrequests": subs}
		}
		return []run.Result{res}
	}
	// one result per distinct symptom so that known findings match individually
	var out []run.Result
	seen := map[string]bool{}
	for _, v := range viol {
		if seen[v.symptom] {
			continue
		}
		seen[v.symptom] = true
		rr := res
		rr.Verdict = run.Violated
		rr.Symptom = v.symptom
		rr.Message = v.msg + "\nclient operation: " + sp.Op.Query + "\nvariables: " + gen.MarshalVars(sp.Op.Variables)
		if len(out) > 0 {
			rr.Key, rr.NonTrivial, rr.Counters, rr.Traces = "", false, nil, nil
		}
		out = append(out, rr)
	}
	return out
}

func nonNilMap(m map[string]any) map[string]any {
	if m == nil {
		return map[string]any{}
	}
	return m
}

func jsonStr(v any) string {
	b, _ := json.Marshal(v)
	return string(b)
}
