// Package props holds one file per property: case generators and oracles.
package props

import (
	"crypto/sha1"
	"encoding/hex"
	"encoding/json"
	"fmt"
	"math/rand"
	"sort"
	"strings"
	"sync"

	"verif/harness/internal/gen"
	"verif/harness/internal/rig"
	"verif/harness/internal/run"

	"github.com/buildbuildio/pebbles/planner"
	"github.com/buildbuildio/pebbles/requests"
	"github.com/vektah/gqlparser/v2"
	"github.com/vektah/gqlparser/v2/ast"
)

func RegisterAll() {
	run.Register(&c01{})
	run.Register(&c02{})
	run.Register(&c03{})
	run.Register(&c04{})
	run.Register(&c05{})
	run.Register(&c06{})
	run.Register(&c07{})
	run.Register(&c08{})
	run.Register(&c09{})
	run.Register(&c10{})
	run.Register(&c11{})
	run.Register(&c12{})
	run.Register(&c13{})
	run.Register(&c14{})
	run.Register(&c15{})
	run.Register(&c16{})
	run.Register(&c17{})
	run.Register(&c18{})
	run.Register(&c19{})
	run.Register(&c20{})
}

func hashStr(parts ...string) string {
	h := sha1.New()
	for _, p := range parts {
		h.Write([]byte(p))
		h.Write([]byte{0})
	}
	return hex.EncodeToString(h.Sum(nil)[:8])
}

func rng(seed int64, salt string, idx int) *rand.Rand {
	h := sha1.Sum([]byte(fmt.Sprintf("%d|%s|%d", seed, salt, idx)))
	var s int64
	for i := 0; i < 8; i++ {
		s = s<<8 | int64(h[i])
	}
	return rand.New(rand.NewSource(s))
}

type uniCacheKey struct {
	seed int64
	salt string
	idx  int
}

var (
	uniMu    sync.Mutex
	uniCache = map[uniCacheKey]*cachedUni{}
)

type cachedUni struct {
	spec rig.UniverseSpec
	mono *ast.Schema
	u    *gen.Universe
}

// universe returns universe idx of the stream (seed, salt); cached per process.
func universe(seed int64, salt string, idx int, prof func(r *rand.Rand) (gen.Profile, gen.DataCfg)) (*cachedUni, error) {
	k := uniCacheKey{seed, salt, idx}
	uniMu.Lock()
	defer uniMu.Unlock()
	if c, ok := uniCache[k]; ok {
		return c, nil
	}
	r := rng(seed, "universe/"+salt, idx)
	p, d := prof(r)
	u := gen.NewUniverse(r, p)
	spec := rig.FromUniverse(u, d)
	mono, err := gqlparser.LoadSchema(&ast.Source{Name: "mono", Input: spec.Mono})
	if err != nil {
		return nil, fmt.Errorf("generator bug: monolith SDL does not load: %v\n%s", err, spec.Mono)
	}
	for _, s := range spec.Services {
		if _, err := gqlparser.LoadSchema(&ast.Source{Name: s.Name, Input: s.SDL}); err != nil {
			return nil, fmt.Errorf("generator bug: service SDL does not load: %v\n%s", err, s.SDL)
		}
	}
	if len(uniCache) > 8 {
		uniCache = map[uniCacheKey]*cachedUni{}
	}
	c := &cachedUni{spec: spec, mono: mono, u: u}
	uniCache[k] = c
	return c, nil
}

func specHashOf(spec rig.UniverseSpec) string {
	var parts []string
	for _, s := range spec.Services {
		parts = append(parts, s.SDL)
	}
	b, _ := json.Marshal(spec.Data)
	parts = append(parts, string(b))
	return hashStr(parts...)
}

// planShape plans op with the plain planner on the rig's merged schema and
// returns (steps, depth, services).
func planShape(r *rig.Rig, op *gen.Op) (steps, depth int, svcs map[string]int, plan *planner.QueryPlan, err error) {
	defer func() {
		if p := recover(); p != nil {
			err = fmt.Errorf("planner panic: %v", p)
		}
	}()
	doc, gerr := gqlparser.LoadQuery(r.Merged.Schema, op.Query)
	if gerr != nil {
		return 0, 0, nil, nil, gerr
	}
	var o *ast.OperationDefinition
	if op.OperationName != "" {
		o = doc.Operations.ForName(op.OperationName)
	} else if len(doc.Operations) == 1 {
		o = doc.Operations[0]
	}
	if o == nil {
		return 0, 0, nil, nil, fmt.Errorf("no operation")
	}
	var sp planner.SequentialPlanner
	var opName *string
	if op.OperationName != "" {
		opName = &op.OperationName
	}
	plan, err = sp.Plan(&planner.PlanningContext{
		Operation: o, Schema: r.Merged.Schema, TypeURLMap: r.Merged.TypeURLMap,
		Request: &requests.Request{Query: op.Query, Variables: op.Variables, OperationName: opName},
	})
	if err != nil {
		return 0, 0, nil, nil, err
	}
	svcs = map[string]int{}
	var walk func(s []*planner.QueryPlanStep, d int)
	walk = func(s []*planner.QueryPlanStep, d int) {
		for _, st := range s {
			steps++
			svcs[st.URL]++
			if d > depth {
				depth = d
			}
			walk(st.Then, d+1)
		}
	}
	walk(plan.RootSteps, 1)
	return
}

func sortedKeys[V any](m map[string]V) []string {
	out := make([]string, 0, len(m))
	for k := range m {
		out = append(out, k)
	}
	sort.Strings(out)
	return out
}

func errMessages(errs []any) string {
	var ms []string
	for _, e := range errs {
		if m, ok := e.(map[string]any); ok {
			ms = append(ms, fmt.Sprint(m["message"]))
		} else {
			ms = append(ms, fmt.Sprint(e))
		}
	}
	return strings.Join(ms, " | ")
}

func mustJSON(v any) json.RawMessage {
	b, err := json.Marshal(v)
	if err != nil {
		panic(err)
	}
	return b
}

func pick[T any](r *rand.Rand, xs []T) T { return xs[r.Intn(len(xs))] }
