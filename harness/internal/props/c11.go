package props

import (
	"bytes"
	"compress/gzip"
	"context"
	"encoding/json"
	"errors"
	"fmt"
	"io"
	"mime"
	"mime/multipart"
	"net/http"
	"regexp"
	"strings"
	"sync"
	"sync/atomic"
	"time"

	"verif/harness/internal/run"
	"verif/harness/internal/sched"

	"github.com/buildbuildio/pebbles/gqlerrors"
	"github.com/buildbuildio/pebbles/queryer"
	"github.com/buildbuildio/pebbles/requests"
)

// C11 — downstream batching is transparent.
type c11 struct{}

type c11Case struct {
	N        int    `json:"n"`
	M        int    `json:"m"`
	Order    []int  `json:"release_order"` // permutation of the chunk calls (by first token index order)
	FailAt   int    `json:"fail_chunk"`    // -1 none
	FailKind string `json:"fail_kind,omitempty"`
	Files    []int  `json:"file_requests,omitempty"`      // request indexes carrying an upload
	Dup      bool   `json:"repeating_requests,omitempty"` // request i is the same as request i mod m: all full chunks are byte-identical
	Jitter   uint64 `json:"jitter_seed"`
}

// c11Hangs counts cases of this process in which Query did not return; after a few of them the
// bound shrinks so that a change which hangs many cases does not stall the run for hours.
var c11Hangs int32

func c11ReturnBound() time.Duration {
	if atomic.LoadInt32(&c11Hangs) >= 3 {
		return 3 * time.Second
	}
	return 20 * time.Second
}

func (c11) ID() string                 { return "C11" }
func (c11) Level() string              { return "fault_enumeration" }
func (c11) RaceIsViolation() bool      { return true }
func (c11) Exhaustive(c *run.Ctx) bool { return true }
func (c11) Rule() string {
	return "the real queryer.MultiOpQueryer is driven directly over a recording, gated http.RoundTripper: EVERY N in 0..Nmax x EVERY m in 1..mmax (quick 0..14 x 1..5, thorough 0..26 x 1..9) x completion orders of the concurrent chunk calls (all c! orders for c <= 4 chunks, else 24 sampled permutations; the gate releases a call only after all chunk calls are pending) x {no failure | one failing chunk at every chunk position x {transport error, 500, element with errors, short array, long array}} ; plus variants in which some requests carry file uploads (sent one per call); AsyncMapReduce hooks jitter; " +
		"oracle: len(result) = N, result[i] echoes the unique token of request i, every token appears in exactly one HTTP call, no call carries more than m requests, and with a failing call Query returns an error and a nil result; race detector on; " +
		"distinct = distinct (N, m, order, failing chunk, kind, file set); non-trivial = N > m (chunking happens); the (N, m, order<=4!, failing chunk, kind) space is enumerated completely"
}
func (c11) Assumptions() []string {
	return []string{"completion order is an explicit input: the gate holds every concurrent chunk call until all are pending, then releases them one at a time, waiting for each answer to be consumed", "a watchdog that fires while waiting for pending calls makes the case inconclusive, never a violation"}
}

var c11Kinds = []string{"transport-error", "status-500", "element-errors", "short-array", "long-array", "context-cancelled", "transport-eof", "status-503-valid-body"}

// c11Benign are answers a spec-abiding service may give instead of the plain 200 {"data": ...}: an empty errors
// list next to the data, a 2xx status other than 200.  They are applied to every call and are no failures.
var c11Benign = []string{"benign:empty-errors-list", "benign:status-207"}

func c11IsBenign(k string) bool { return strings.HasPrefix(k, "benign:") }

type c11Body struct {
	*bytes.Reader
	size            int
	status          int
	drained, closed int32
}

func (b *c11Body) Read(p []byte) (int, error) {
	n, err := b.Reader.Read(p)
	if err != nil {
		atomic.StoreInt32(&b.drained, 1)
	}
	return n, err
}
func (b *c11Body) Close() error { atomic.StoreInt32(&b.closed, 1); return nil }

type c11Combo struct {
	n, m, order, failAt int
	kind                string
	files               bool
	dup                 bool
}

func c11Bounds(tier string) (int, int) {
	if tier == "thorough" {
		return 40, 12
	}
	return 14, 5
}

// chunkCount is the number of HTTP calls expected for N plain requests: the
// queryer splits into N/m+1 chunks and a trailing empty chunk makes no call.
func chunkCount(n, m int) int {
	if n <= m {
		return 1
	}
	c := n/m + 1
	if n%m == 0 {
		c--
	}
	return c
}

var c11Lists = map[string][]c11Combo{}
var c11Mu sync.Mutex

func c11List(tier string) []c11Combo {
	c11Mu.Lock()
	defer c11Mu.Unlock()
	if l, ok := c11Lists[tier]; ok {
		return l
	}
	nmax, mmax := c11Bounds(tier)
	var out []c11Combo
	for n := 0; n <= nmax; n++ {
		for m := 1; m <= mmax; m++ {
			c := chunkCount(n, m)
			orders := 1
			if c > 1 {
				orders = 24
				if c <= 4 {
					orders = len(permutations(c))
				}
			}
			for o := 0; o < orders; o++ {
				out = append(out, c11Combo{n, m, o, -1, "", false, false})
			}
			// failures: every chunk position x kind, under up to 3 orders
			for f := 0; f < c && n > 0; f++ {
				for _, k := range c11Kinds {
					for o := 0; o < orders && o < 3; o++ {
						out = append(out, c11Combo{n, m, o, f, k, false, false})
					}
				}
			}
			if n > 0 {
				out = append(out, c11Combo{n, m, 0, -1, "", true, false}, c11Combo{n, m, 1, -1, "", true, false})
				// answers worded differently but meaning the same: nothing may change
				for _, k := range c11Benign {
					out = append(out, c11Combo{n, m, 0, 0, k, false, false})
				}
			}
			// a list that repeats itself with the period of the batch size: the chunk calls carry identical bodies and
			// each of them is still a call of its own
			if c > 1 {
				out = append(out, c11Combo{n: n, m: m, order: 0, failAt: -1, dup: true})
			}
			// every chunk call fails (a service that is down), under two completion orders
			if c > 1 {
				for _, k := range []string{"all:transport-error", "all:status-500", "all:element-errors"} {
					out = append(out, c11Combo{n, m, 0, 0, k, false, false}, c11Combo{n, m, 1, 0, k, false, false})
				}
			}
		}
	}
	c11Lists[tier] = out
	return out
}

func (p c11) NumCases(c *run.Ctx) int  { return len(c11List(c.Tier)) }
func (p c11) BatchSize(c *run.Ctx) int { return 250 }

func (p c11) Gen(c *run.Ctx, idx int) (json.RawMessage, error) {
	cb := c11List(c.Tier)[idx]
	r := rng(c.Seed, "c11", idx)
	cs := c11Case{N: cb.n, M: cb.m, FailAt: cb.failAt, FailKind: cb.kind, Jitter: uint64(r.Int63()), Dup: cb.dup}
	cc := chunkCount(cb.n, cb.m)
	if cc <= 4 {
		ps := permutations(cc)
		cs.Order = ps[cb.order%len(ps)]
	} else {
		cs.Order = r.Perm(cc)
	}
	if cb.files {
		for i := 0; i < cb.n; i++ {
			if r.Intn(3) == 0 {
				cs.Files = append(cs.Files, i)
			}
		}
		if len(cs.Files) == 0 {
			cs.Files = []int{r.Intn(cb.n)}
		}
	}
	return mustJSON(cs), nil
}

var tokRe = regexp.MustCompile(`tok-(\d+)`)

type c11Call struct {
	tokens  []int
	release chan struct{}
	done    chan struct{}
	multi   bool
}

type c11RT struct {
	mu      sync.Mutex
	calls   []*c11Call
	arrived chan struct{}
	gated   bool
	failTok int // the call containing this token fails (-1 none)
	kind    string
	failed  int // calls answered with a failure
	bodies  []*c11Body
}

func (rt *c11RT) RoundTrip(req *http.Request) (*http.Response, error) {
	body, _ := io.ReadAll(req.Body)
	req.Body.Close()
	call := &c11Call{release: make(chan struct{}), done: make(chan struct{})}
	mt, params, _ := mime.ParseMediaType(req.Header.Get("Content-Type"))
	var bodies []string
	isArray := true
	if mt == "multipart/form-data" {
		call.multi = true
		isArray = false
		mr := multipart.NewReader(bytes.NewReader(body), params["boundary"])
		for {
			p, err := mr.NextPart()
			if err != nil {
				break
			}
			b, _ := io.ReadAll(p)
			if p.FormName() == "operations" {
				bodies = []string{string(b)}
			}
		}
	} else {
		var arr []json.RawMessage
		if err := json.Unmarshal(body, &arr); err != nil {
			return nil, errors.New("c11 transport: body is not a JSON array")
		}
		for _, a := range arr {
			bodies = append(bodies, string(a))
		}
	}
	for _, b := range bodies {
		m := tokRe.FindStringSubmatch(b)
		if m == nil {
			return nil, errors.New("c11 transport: request without token")
		}
		var t int
		fmt.Sscanf(m[1], "%d", &t)
		call.tokens = append(call.tokens, t)
	}
	rt.mu.Lock()
	rt.calls = append(rt.calls, call)
	rt.mu.Unlock()
	select {
	case rt.arrived <- struct{}{}:
	default:
	}
	if rt.gated && !call.multi {
		select {
		case <-call.release:
		case <-req.Context().Done():
			close(call.done)
			return nil, req.Context().Err()
		case <-time.After(30 * time.Second):
		}
	}
	defer close(call.done)
	if err := req.Context().Err(); err != nil {
		return nil, err
	}
	fail := false
	for _, t := range call.tokens {
		if t == rt.failTok {
			fail = true
		}
	}
	kind := rt.kind
	if strings.HasPrefix(kind, "all:") {
		fail, kind = true, strings.TrimPrefix(kind, "all:")
	}
	if c11IsBenign(kind) {
		fail = false
	}
	if fail {
		rt.mu.Lock()
		rt.failed++
		rt.mu.Unlock()
	}
	mk := func(status int, b []byte) *http.Response {
		hdr := http.Header{"Content-Type": {"application/json"}}
		if strings.Contains(req.Header.Get("Accept-Encoding"), "gzip") {
			// a caller that asks for gzip by itself gets gzip (net/http only decodes what it negotiated itself)
			var zb bytes.Buffer
			zw := gzip.NewWriter(&zb)
			zw.Write(b)
			zw.Close()
			b = zb.Bytes()
			hdr.Set("Content-Encoding", "gzip")
		}
		tb := &c11Body{Reader: bytes.NewReader(b), size: len(b), status: status}
		rt.mu.Lock()
		rt.bodies = append(rt.bodies, tb)
		rt.mu.Unlock()
		return &http.Response{StatusCode: status, Status: fmt.Sprint(status), Proto: "HTTP/1.1", ProtoMajor: 1, ProtoMinor: 1, Header: hdr, Body: tb, Request: req}
	}
	var els []map[string]any
	for _, t := range call.tokens {
		els = append(els, map[string]any{"data": map[string]any{"echo": fmt.Sprintf("tok-%d", t)}})
	}
	okStatus := 200
	switch kind {
	case "benign:empty-errors-list":
		for _, e := range els {
			e["errors"] = []any{}
		}
	case "benign:status-207":
		okStatus = 207
	}
	if fail {
		switch kind {
		case "transport-error":
			return nil, errors.New("c11 transport: injected failure")
		case "status-500":
			return mk(500, []byte(`[]`)), nil
		case "transport-eof":
			// the service read the call (it is recorded above) and dropped the connection without answering
			return nil, io.EOF
		case "status-503-valid-body":
			out, _ := json.Marshal(els)
			return mk(503, out), nil
		case "element-errors":
			els[len(els)-1] = map[string]any{"errors": []any{map[string]any{"message": "injected"}}, "data": nil}
		case "short-array":
			els = els[:len(els)-1]
		case "long-array":
			els = append(els, map[string]any{"data": map[string]any{"echo": "extra"}})
		}
	}
	var out []byte
	if isArray {
		if els == nil {
			els = []map[string]any{}
		}
		out, _ = json.Marshal(els)
	} else {
		out, _ = json.Marshal(els[0])
	}
	return mk(okStatus, out), nil
}

type memFile struct{ *strings.Reader }

func (memFile) Close() error { return nil }

func (p c11) Exec(c *run.Ctx, idx int, raw json.RawMessage) []run.Result {
	var sp c11Case
	if err := json.Unmarshal(raw, &sp); err != nil {
		return []run.Result{{Verdict: "broken", Message: err.Error()}}
	}
	res := run.Result{Verdict: run.Held, Counters: map[string]int{}}
	cc := chunkCount(sp.N, sp.M)
	res.NonTrivial = sp.N > sp.M
	res.Key = hashStr(fmt.Sprint(sp.N, sp.M, sp.Order, sp.FailAt, sp.FailKind, sp.Files, sp.Dup))
	tokOf := func(i int) int {
		if sp.Dup {
			return i % sp.M
		}
		return i
	}
	tags := map[string]bool{}
	if sp.FailAt >= 0 {
		tags["fail:"+sp.FailKind] = true
	}
	if len(sp.Files) > 0 {
		tags["files"] = true
	}
	if sp.Dup {
		tags["repeating-requests"] = true
	}
	res.Tags = sortedKeys(tags)
	isFile := map[int]bool{}
	for _, f := range sp.Files {
		isFile[f] = true
	}
	inputs := make([]*requests.Request, sp.N)
	for i := range inputs {
		vars := map[string]interface{}{}
		if isFile[i] {
			vars["f"] = &requests.Upload{File: memFile{strings.NewReader(fmt.Sprintf("file-%d", i))}, FileName: fmt.Sprintf("f%d.txt", i)}
			if (sp.Jitter+uint64(i))%2 == 0 {
				// a request may carry several files: it is still one request
				vars["g"] = &requests.Upload{File: memFile{strings.NewReader(fmt.Sprintf("second-%d", i))}, FileName: fmt.Sprintf("g%d.txt", i)}
				vars["h"] = []interface{}{&requests.Upload{File: memFile{strings.NewReader(fmt.Sprintf("third-%d", i))}, FileName: fmt.Sprintf("h%d.txt", i)}}
			}
		}
		inputs[i] = &requests.Request{Query: fmt.Sprintf(`{ echo(t: "tok-%d") }`, tokOf(i)), Variables: vars}
	}
	rt := &c11RT{arrived: make(chan struct{}, 1), gated: cc > 1 && len(sp.Files) == 0, failTok: -1, kind: sp.FailKind}
	if sp.FailAt >= 0 {
		rt.failTok = sp.FailAt * sp.M
		if sp.N <= sp.M {
			rt.failTok = 0
		}
		if rt.failTok >= sp.N {
			rt.failTok = sp.N - 1 // the trailing (possibly empty) chunk: fail the last real request's call instead
		}
	}
	q := queryer.NewMultiOpQueryer("http://c11.test/graphql", sp.M).WithHTTPClient(&http.Client{Transport: rt})
	// "context-cancelled": the queryer's own context (the client request's) ends while the chunk calls are in flight
	qctx, cancelQ := context.WithCancel(context.Background())
	defer cancelQ()
	q.WithContext(qctx)
	if sp.FailKind == "context-cancelled" && !rt.gated {
		cancelQ()
	}
	if atomic.LoadInt32(&c11Hangs) >= 8 {
		// this process is littered with stuck Query calls, each already reported; the remaining cases of its batch are not run
		res.Verdict, res.Symptom, res.Message = run.Inconclusive, "not-run-after-repeated-hangs", "8 cases of this child process already ended with query-did-not-return"
		return []run.Result{res}
	}
	sched.Install(sched.Options{Seed: sp.Jitter, Jitter: true, Record: true, MaxEvents: 5000})
	defer sched.Uninstall()
	type out struct {
		res []map[string]interface{}
		err error
		pan any
	}
	done := make(chan out, 1)
	go func() {
		var o out
		defer func() {
			if p := recover(); p != nil {
				o.pan = p
			}
			done <- o
		}()
		o.res, o.err = q.Query(inputs)
	}()
	inconclusive := false
	if rt.gated {
		// wait until all cc chunk calls are pending
		deadline := time.After(1500 * time.Millisecond)
	wait:
		for {
			rt.mu.Lock()
			n := len(rt.calls)
			rt.mu.Unlock()
			if n >= cc {
				break
			}
			select {
			case <-rt.arrived:
			case <-time.After(2 * time.Millisecond):
			case o := <-done:
				// Query returned although not every expected call was made: judge what happened
				done <- o
				break wait
			case <-deadline:
				// fewer calls than expected are pending: release what is there; the completion order is then
				// only partly controlled, the oracle below still judges the outcome
				res.Counters["gate_incomplete"] = 1
				break wait
			}
		}
		rt.mu.Lock()
		calls := append([]*c11Call{}, rt.calls...)
		rt.mu.Unlock()
		// order calls by their first token (empty chunk last)
		key := func(cl *c11Call) int {
			if len(cl.tokens) == 0 {
				return 1 << 30
			}
			return cl.tokens[0]
		}
		for i := 1; i < len(calls); i++ {
			for j := i; j > 0 && key(calls[j]) < key(calls[j-1]); j-- {
				calls[j], calls[j-1] = calls[j-1], calls[j]
			}
		}
		if sp.FailKind == "context-cancelled" {
			cancelQ()
		}
		for _, oi := range sp.Order {
			if oi < len(calls) {
				close(calls[oi].release)
				select {
				case <-calls[oi].done:
				case <-time.After(5 * time.Second):
				}
				time.Sleep(50 * time.Microsecond)
			}
		}
		for _, cl := range calls {
			select {
			case <-cl.release:
			default:
				close(cl.release)
			}
		}
	}
	var o out
	select {
	case o = <-done:
	case <-time.After(c11ReturnBound()):
		// every chunk call was released and answered long ago (in-memory transport): Query is stuck
		atomic.AddInt32(&c11Hangs, 1)
		res.Verdict, res.Symptom, res.Message = run.Violated, "query-did-not-return", fmt.Sprintf("N=%d m=%d order=%v fail=%d/%s: Query had not returned %v after its last downstream call was answered", sp.N, sp.M, sp.Order, sp.FailAt, sp.FailKind, c11ReturnBound())
		return []run.Result{res}
	}
	res.Traces = sched.TraceHashes(sched.Events())
	if inconclusive {
		res.Verdict, res.Symptom = run.Inconclusive, "gate-watchdog"
		return []run.Result{res}
	}
	fail := func(sym, msg string) []run.Result {
		res.Verdict, res.Symptom, res.Message = run.Violated, sym, fmt.Sprintf("N=%d m=%d order=%v fail=%d/%s files=%v: %s", sp.N, sp.M, sp.Order, sp.FailAt, sp.FailKind, sp.Files, msg)
		return []run.Result{res}
	}
	if o.pan != nil {
		return fail("query-panic: "+errTemplate(fmt.Sprint(o.pan)), fmt.Sprint(o.pan))
	}
	rt.mu.Lock()
	calls := rt.calls
	rt.mu.Unlock()
	res.Counters["http_calls"] = len(calls)
	res.Counters["chunks"] = cc
	seen := map[int]int{}
	for _, cl := range calls {
		if len(cl.tokens) > sp.M {
			return fail("call-larger-than-max-batch", fmt.Sprintf("a call carried %d requests", len(cl.tokens)))
		}
		for _, t := range cl.tokens {
			seen[t]++
		}
	}
	// an answer body that is neither read to its end nor closed keeps its connection out of the pool for good
	rt.mu.Lock()
	for _, b := range rt.bodies {
		if b.size > 0 && atomic.LoadInt32(&b.drained) == 0 && atomic.LoadInt32(&b.closed) == 0 {
			rt.mu.Unlock()
			return fail("answer-body-neither-read-nor-closed", fmt.Sprintf("the %d byte body of a status %d answer was dropped unread and unclosed", b.size, b.status))
		}
	}
	res.Counters["answer_bodies_tracked"] = len(rt.bodies)
	nFailed := rt.failed
	rt.mu.Unlock()
	if sp.FailAt >= 0 && !c11IsBenign(sp.FailKind) {
		if o.err == nil {
			return fail("failed-call-not-reported", fmt.Sprintf("Query returned no error; result has %d entries", len(o.res)))
		}
		if o.res != nil {
			return fail("partial-result-with-error", fmt.Sprintf("error %v together with %d results", o.err, len(o.res)))
		}
		for t, n := range seen {
			if n > 1 {
				return fail("request-sent-more-than-once", fmt.Sprintf("token %d in %d calls", t, n))
			}
		}
		// every failed call yields one error and a call that did not fail yields none, whatever the completion order
		if el, ok := o.err.(gqlerrors.ErrorList); ok && sp.FailKind != "context-cancelled" && nFailed > 0 {
			res.Counters["error_lists_counted"] = 1
			if len(el) != nFailed {
				return fail("errors-do-not-match-failed-calls", fmt.Sprintf("%d calls failed, Query reports %d errors: %v", nFailed, len(el), o.err))
			}
		}
		return []run.Result{res}
	}
	if o.err != nil {
		return fail("unexpected-error", o.err.Error())
	}
	if len(o.res) != sp.N {
		return fail("result-count", fmt.Sprintf("%d results for %d requests", len(o.res), sp.N))
	}
	wantSeen := map[int]int{}
	for i := 0; i < sp.N; i++ {
		wantSeen[tokOf(i)]++
	}
	for i := 0; i < sp.N; i++ {
		if seen[tokOf(i)] != wantSeen[tokOf(i)] {
			return fail("request-not-sent-exactly-once", fmt.Sprintf("token %d appeared %d times over all calls, the list holds it %d times", tokOf(i), seen[tokOf(i)], wantSeen[tokOf(i)]))
		}
		want := fmt.Sprintf("tok-%d", tokOf(i))
		if o.res[i] == nil || o.res[i]["echo"] != want {
			return fail("result-does-not-answer-its-request", fmt.Sprintf("result[%d] = %v, want echo %s", i, o.res[i], want))
		}
	}
	if res.NonTrivial && idx%29 == 0 {
		res.Sample = map[string]any{"N": sp.N, "m": sp.M, "release_order": sp.Order, "http_calls": len(calls)}
	}
	return []run.Result{res}
}
