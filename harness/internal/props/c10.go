package props

import (
	"encoding/json"
	"fmt"
	"math/rand"
	"reflect"
	"regexp"
	"strings"
	"sync"

	"verif/harness/internal/fake"
	"verif/harness/internal/gen"
	"verif/harness/internal/rig"
	"verif/harness/internal/run"

	"github.com/vektah/gqlparser/v2"
	"github.com/vektah/gqlparser/v2/ast"
)

// C10 — invalid operations never reach a service; service errors reach the client intact.
type c10 struct{}

type c10Case struct {
	U        rig.UniverseSpec `json:"universe"`
	Mode     string           `json:"mode"` // "invalid" | "errors"
	Op       gen.Op           `json:"op"`
	Mutator  string           `json:"mutator,omitempty"`
	FaultAt  int              `json:"fault_at"`
	Pos      int              `json:"pos"` // element position inside the downstream batch (-2: last)
	Errs     []map[string]any `json:"errors,omitempty"`
	WithData bool             `json:"with_data"`
	Second   bool             `json:"second_failing_element"`
	MaxBatch int              `json:"max_batch,omitempty"`           // downstream batches split into chunks of this size (0: default 3000)
	Status   int              `json:"ok_status,omitempty"`           // mode errors: the services answer with this 2xx status instead of 200 (GraphQL over HTTP allows any 2xx for a well-formed answer)
	LeadName string           `json:"lead_operation_name,omitempty"` // mode invalid: the mutant is the second entry of an HTTP batch whose first entry is a gateway-only operation of this name
}

func (c10) ID() string            { return "C10" }
func (c10) Level() string         { return "exploration" }
func (c10) RaceIsViolation() bool { return false }
func (c10) Rule() string {
	return "mode A: valid generated operations are made invalid by one mutator each (unknown field / type / argument / directive, wrong variable type, undefined or unused variable, fragment cycle, undefined / unused fragment, ambiguous or unknown operationName, broken syntax); a mutant counts only if the harness-side gqlparser validation against the gateway's merged schema rejects it; oracle: zero downstream events in the request's log segment, errors non-empty, data null; " +
		"mode B: one downstream call (each call index of the fault-free run, first or last element of the batch) answers with a generated GraphQL error payload (1-3 errors; messages with quotes/unicode; extensions nested/arrays/numbers/null or absent; path with strings and integers; locations); oracle: for every injected error the client's errors contain an entry with equal message, deep-equal extensions (when sent) and equal path; " +
		"distinct = distinct (mutator, operation) resp. (operation, call, position, payload shape); non-trivial = mode A: mutant's original needs >= 1 downstream request; mode B: every case"
}
func (c10) Assumptions() []string {
	return []string{"harness-side validation uses gqlparser against the gateway's own merged schema (captured)", "event log segment between client send and handler return belongs to the request"}
}
func (p c10) per(c *run.Ctx) (int, int) {
	if c.Tier == "thorough" {
		return 150, 1000
	}
	return 8, 180
}
func (p c10) NumCases(c *run.Ctx) int { u, o := p.per(c); return u * o }

var identRe = regexp.MustCompile(`\b[a-z][A-Za-z0-9_]*\b`)

// mutate makes op invalid in one specific way; returns "" if not applicable.
func mutate(r *rand.Rand, op *gen.Op, mono *ast.Schema, kind string) *gen.Op {
	m := *op
	q := op.Query
	switch kind {
	case "unknown-field":
		locs := identRe.FindAllStringIndex(q, -1)
		var cands [][]int
		for _, l := range locs {
			w := q[l[0]:l[1]]
			if w == "query" || w == "mutation" || w == "fragment" || w == "on" || w == "true" || w == "false" || w == "null" || w == "id" || w == "if" || w == "skip" || w == "include" {
				continue
			}
			// a selection, not an argument name or alias: followed by space/{/( and not by ':'
			rest := strings.TrimLeft(q[l[1]:], " ")
			if strings.HasPrefix(rest, ":") || (l[0] > 0 && (q[l[0]-1] == '$' || q[l[0]-1] == '@' || q[l[0]-1] == '"')) {
				continue
			}
			cands = append(cands, l)
		}
		if len(cands) == 0 {
			return nil
		}
		l := cands[r.Intn(len(cands))]
		m.Query = q[:l[0]] + "nopeField" + q[l[1]:]
	case "unknown-type":
		if !strings.Contains(q, "... on ") {
			m.Query = strings.Replace(q, "{", "{ ... on NopeType { id } ", 1)
		} else {
			m.Query = regexp.MustCompile(`\.\.\. on \w+`).ReplaceAllString(q, "... on NopeType")
		}
	case "unknown-argument":
		i := strings.Index(q, "(")
		if i < 0 || strings.HasPrefix(strings.TrimSpace(q), "query(") || strings.Contains(q[:i], "query") || strings.Contains(q[:i], "mutation") {
			// add an argument to the first field instead
			re := regexp.MustCompile(`\{\s*([a-zA-Z_][A-Za-z0-9_]*)`)
			loc := re.FindStringSubmatchIndex(q)
			if loc == nil {
				return nil
			}
			m.Query = q[:loc[3]] + "(nopeArg: 1)" + q[loc[3]:]
			if strings.HasPrefix(q[loc[3]:], "(") || strings.HasPrefix(q[loc[3]:], ":") {
				return nil
			}
		} else {
			m.Query = q[:i+1] + "nopeArg: 1, " + q[i+1:]
		}
	case "unknown-directive":
		re := regexp.MustCompile(`\{\s*([a-zA-Z_][A-Za-z0-9_]*)`)
		loc := re.FindStringSubmatchIndex(q)
		if loc == nil || strings.HasPrefix(q[loc[3]:], ":") || strings.HasPrefix(q[loc[3]:], "(") {
			return nil
		}
		m.Query = q[:loc[3]] + " @nopeDirective" + q[loc[3]:]
	case "wrong-variable-type":
		re := regexp.MustCompile(`\$v1: ([\[\]A-Za-z!]+)`)
		if !re.MatchString(q) {
			return nil
		}
		m.Query = re.ReplaceAllString(q, "$$v1: [[Boolean!]!]!")
	case "undefined-variable":
		re := regexp.MustCompile(`\(([a-z]+): ([^$(){}:,]+)([,)])`)
		loc := re.FindStringSubmatchIndex(q)
		if loc == nil {
			return nil
		}
		m.Query = q[:loc[4]] + "$undefinedVar" + q[loc[5]:]
	case "unused-variable":
		if strings.HasPrefix(strings.TrimSpace(q), "{") {
			m.Query = "query($unusedVar: Int) " + q
		} else if i := strings.Index(q, "("); i >= 0 && i < strings.Index(q, "{") {
			m.Query = q[:i+1] + "$unusedVar: Int, " + q[i+1:]
		} else {
			i := strings.Index(q, "{")
			m.Query = q[:i] + "($unusedVar: Int) " + q[i:]
		}
	case "fragment-cycle":
		root := "Query"
		if strings.HasPrefix(strings.TrimSpace(q), "mutation") {
			root = "Mutation"
		}
		i := strings.Index(q, "{")
		m.Query = q[:i+1] + " ...CycA " + q[i+1:] + "\nfragment CycA on " + root + " { ...CycB }\nfragment CycB on " + root + " { ...CycA }"
	case "undefined-fragment":
		i := strings.Index(q, "{")
		m.Query = q[:i+1] + " ...NoSuchFragment " + q[i+1:]
	case "unused-fragment":
		m.Query = q + "\nfragment Unused on Query { __typename }"
	case "ambiguous-operation":
		if strings.HasPrefix(strings.TrimSpace(q), "mutation") || strings.Contains(q, "query Other") {
			return nil
		}
		other := "query AmbA { " + firstScalarRoot(mono) + " }\n"
		named := q
		if strings.HasPrefix(strings.TrimSpace(q), "{") {
			named = "query AmbB " + q
		} else if strings.HasPrefix(strings.TrimSpace(q), "query(") || strings.HasPrefix(strings.TrimSpace(q), "query {") || strings.HasPrefix(strings.TrimSpace(q), "query  {") {
			named = strings.Replace(q, "query", "query AmbB", 1)
		}
		if r.Intn(2) == 0 {
			m.Query = other + named
		} else {
			m.Query = named + "\n" + other
		}
		m.OperationName = ""
	case "unknown-operation-name":
		m.OperationName = "NoSuchOperation"
	case "syntax":
		i := strings.LastIndex(q, "}")
		m.Query = q[:i]
	case "scalar-with-selection":
		f := firstScalarRoot(mono)
		if f == "__typename" || strings.HasPrefix(strings.TrimSpace(q), "mutation") {
			return nil
		}
		i := strings.Index(q, "{")
		m.Query = q[:i+1] + " " + f + " { id } " + q[i+1:]
	default:
		return nil
	}
	return &m
}

var c10Mutators = []string{"unknown-field", "unknown-type", "unknown-argument", "unknown-directive", "wrong-variable-type", "undefined-variable", "unused-variable",
	"fragment-cycle", "undefined-fragment", "unused-fragment", "ambiguous-operation", "unknown-operation-name", "syntax", "scalar-with-selection"}

func genErrorPayload(r *rand.Rand) []map[string]any {
	n := 1 + r.Intn(3)
	msgs := []string{"boom", `quote " and \ backslash`, "unié 世界 ☃", "", "line1\nline2", "tab\there", "very " + strings.Repeat("long ", 50)}
	exts := []any{nil, "absent", map[string]any{"code": "E_ONE"}, map[string]any{"code": 42.0, "nested": map[string]any{"a": []any{1.0, "two", nil, true}, "deep": map[string]any{"x": map[string]any{}}}},
		map[string]any{"list": []any{}, "null": nil, "float": 1.5, "neg": -3.0}, map[string]any{}}
	paths := []any{"absent", []any{"a"}, []any{"node", "friends", 2.0, "name"}, []any{"x", 0.0}, []any{}}
	var out []map[string]any
	for i := 0; i < n; i++ {
		e := map[string]any{"message": fmt.Sprintf("%s #%d", pick(r, msgs), i)}
		if x := pick(r, exts); x != "absent" {
			e["extensions"] = x
		}
		if x := pick(r, paths); x != "absent" {
			e["path"] = x
		}
		if r.Intn(2) == 0 {
			e["locations"] = []any{map[string]any{"line": float64(1 + r.Intn(5)), "column": float64(1 + r.Intn(30))}}
		}
		out = append(out, e)
	}
	// sometimes several errors share one message and differ only in path / extensions,
	// or share message and path and differ only in extensions
	switch {
	case n >= 2 && r.Intn(3) == 0:
		for i := 1; i < n; i++ {
			out[i]["message"] = out[0]["message"]
			out[i]["path"] = []any{"dup", float64(i)}
			out[i]["extensions"] = map[string]any{"n": float64(i)}
		}
	case n >= 2 && r.Intn(3) == 0:
		out[0]["extensions"] = map[string]any{"item": "first"}
		for i := 1; i < n; i++ {
			out[i]["message"] = out[0]["message"]
			if p, has := out[0]["path"]; has {
				out[i]["path"] = p
			} else {
				delete(out[i], "path")
			}
			out[i]["extensions"] = map[string]any{"item": float64(i)}
		}
	}
	return out
}

func (p c10) Gen(c *run.Ctx, idx int) (json.RawMessage, error) {
	_, o := p.per(c)
	uidx := idx / o
	cu, err := universe(c.Seed, "batch", uidx, batchProfile)
	if err != nil {
		return nil, err
	}
	r := rng(c.Seed, "c10/case", idx)
	prof := coreOpProfile()
	prof.Depth = 3
	prof.PFragment, prof.PInline, prof.PVar = 0.15, 0.15, 0.4
	if r.Intn(6) == 0 && cu.mono.Mutation != nil {
		prof.Kind = ast.Mutation
	}
	op := genCoreOp(r, cu.mono, prof)
	if op == nil {
		return nil, nil
	}
	cs := c10Case{U: cu.spec, Op: *op, FaultAt: -1}
	if idx%5 < 3 {
		cs.Mode = "invalid"
		for try := 0; try < 10; try++ {
			k := pick(r, c10Mutators)
			mo := mutate(r, op, cu.mono, k)
			if mo == nil {
				continue
			}
			// must be rejected by the harness-side validator
			doc, verr := gqlparser.LoadQuery(cu.mono, mo.Query)
			invalid := verr != nil
			if !invalid {
				if mo.OperationName != "" {
					invalid = doc.Operations.ForName(mo.OperationName) == nil
				} else {
					invalid = len(doc.Operations) != 1
				}
			}
			if !invalid {
				continue
			}
			cs.Op, cs.Mutator = *mo, k
			if r.Intn(3) == 0 {
				cs.LeadName = pick(r, []string{"AmbA", "AmbB", "Lead", "Op", "Q1", "Main", "getIt"})
			}
			if k == "ambiguous-operation" && r.Intn(2) == 0 {
				cs.LeadName = pick(r, []string{"AmbA", "AmbB"}) // the name of one of the mutant's own operations
			}
			return mustJSON(cs), nil
		}
		return nil, nil
	}
	cs.Mode = "errors"
	cs.FaultAt = r.Intn(6)
	cs.Pos = []int{0, -2, 0}[r.Intn(3)]
	cs.Errs = genErrorPayload(r)
	cs.WithData = r.Intn(3) == 0
	cs.Second = r.Intn(8) == 0
	cs.MaxBatch = []int{0, 0, 1, 2}[r.Intn(4)]
	cs.Status = []int{0, 0, 0, 207, 203}[r.Intn(5)]
	return mustJSON(cs), nil
}

func (p c10) Exec(c *run.Ctx, idx int, raw json.RawMessage) []run.Result {
	var sp c10Case
	if err := json.Unmarshal(raw, &sp); err != nil {
		return []run.Result{{Verdict: "broken", Message: err.Error()}}
	}
	res := run.Result{Verdict: run.Held, Counters: map[string]int{}}
	r, err := rig.New(sp.U, rig.Config{MaxBatch: sp.MaxBatch})
	if r != nil {
		defer r.Close()
	}
	if err != nil {
		res.Verdict = run.Skip
		res.Counters["setup_failed"] = 1
		return []run.Result{res}
	}
	fail := func(sym, msg string) []run.Result {
		res.Verdict, res.Symptom, res.Message = run.Violated, sym, msg
		return []run.Result{res}
	}
	if sp.Mode == "invalid" {
		// re-check invalidity against the gateway's own schema
		doc, verr := gqlparser.LoadQuery(r.Merged.Schema, sp.Op.Query)
		invalid := verr != nil
		if !invalid {
			if sp.Op.OperationName != "" {
				invalid = doc.Operations.ForName(sp.Op.OperationName) == nil
			} else {
				invalid = len(doc.Operations) != 1
			}
		}
		if !invalid {
			res.Verdict = run.Skip
			res.Counters["mutant_valid_on_gateway_schema"] = 1
			return []run.Result{res}
		}
		res.Tags = []string{"mutator:" + sp.Mutator}
		res.Key = hashStr("invalid", sp.Mutator, sp.Op.Query, sp.Op.OperationName)
		res.NonTrivial = true
		res.Counters["mutator:"+sp.Mutator] = 1
		mark := r.Log.Len()
		var hr *rig.HTTPResult
		if sp.LeadName != "" {
			// entry 0 is answered by the gateway alone and carries operationName and variables; nothing of it may rub off on entry 1
			lead, _ := json.Marshal(map[string]any{"query": "query " + sp.LeadName + " { __typename }", "operationName": sp.LeadName, "variables": map[string]any{"v1": 1, "v2": "x"}})
			body := append(append(append([]byte("["), lead...), ','), append(rig.Body(&sp.Op), ']')...)
			hr = r.Do("application/json", body)
			res.Tags = append(res.Tags, "second-in-batch")
		} else {
			hr = r.Query(&sp.Op)
		}
		evs := r.Log.Since(mark)
		if hr.Panic != nil {
			return fail("handler-panic: "+errTemplate(fmt.Sprint(hr.Panic)), fmt.Sprint(hr.Panic)+"\n"+hr.Stack)
		}
		if sp.LeadName != "" && len(evs) == 0 {
			if els, berr := rig.DecodeBatch(hr.Body); berr == nil && len(els) == 2 {
				b, _ := json.Marshal(map[string]any{"data": els[1].Data, "errors": els[1].Errors})
				if els[1].Data == nil {
					b, _ = json.Marshal(map[string]any{"data": nil, "errors": els[1].Errors})
				}
				hr.Body = b
			} else {
				return fail("malformed-response", fmt.Sprintf("batch of 2: %v %s", berr, head(string(hr.Body), 300)))
			}
		}
		if len(evs) > 0 {
			return fail("invalid-operation-reached-a-service", fmt.Sprintf("mutator %s: %d downstream request(s), first to %s: %s\noperation: %s (operationName %q)", sp.Mutator, len(evs), evs[0].Service, strings.Join(strings.Fields(evs[0].Query), " "), sp.Op.Query, sp.Op.OperationName))
		}
		g, derr := rig.DecodeSingle(hr.Body)
		if derr != nil {
			return fail("malformed-response", derr.Error())
		}
		if len(g.Errors) == 0 || g.Data != nil {
			return fail("invalid-operation-not-answered-with-errors-and-null-data", fmt.Sprintf("mutator %s operation %s -> %s", sp.Mutator, sp.Op.Query, head(string(hr.Body), 300)))
		}
		if idx%11 == 0 {
			res.Sample = map[string]any{"mode": "invalid", "mutator": sp.Mutator, "operation": sp.Op.Query, "response": head(string(hr.Body), 200)}
		}
		return []run.Result{res}
	}
	// mode errors: dry run to learn the calls
	mark := r.Log.Len()
	r.Query(&sp.Op)
	evs := r.Log.Since(mark)
	if len(evs) == 0 {
		res.Verdict = run.Skip
		res.Counters["no_downstream_call"] = 1
		return []run.Result{res}
	}
	type cref struct {
		svc string
		n   int
		sz  int
	}
	var calls []cref
	seen := map[int64]bool{}
	per := map[string]int{}
	for _, e := range evs {
		if seen[e.CallID] {
			continue
		}
		seen[e.CallID] = true
		per[e.Service]++
		calls = append(calls, cref{e.Service, per[e.Service], e.BatchSize})
	}
	target := calls[sp.FaultAt%len(calls)]
	r2, err := rig.New(sp.U, rig.Config{MaxBatch: sp.MaxBatch})
	if r2 != nil {
		defer r2.Close()
	}
	if err != nil {
		res.Verdict = run.Skip
		return []run.Result{res}
	}
	kind := "errors"
	if sp.WithData {
		kind = "errors+data"
	}
	pos := sp.Pos
	if pos == -2 {
		pos = target.sz - 1
	}
	second := genErrorPayload(rand.New(rand.NewSource(int64(idx))))
	var targetCall int64 = -1
	var tmu sync.Mutex
	for _, s := range r2.Services {
		if sp.Status != 0 {
			s.OKStatus = sp.Status
		}
		s.FaultFn = func(cl *fake.Call) *fake.Fault {
			if cl.Service.Name == target.svc && cl.SvcCall == target.n {
				tmu.Lock()
				targetCall = cl.CallID
				tmu.Unlock()
				return &fake.Fault{Kind: kind, Pos: pos, Errs: sp.Errs}
			}
			return nil
		}
		if sp.Second && target.sz >= 2 {
			s.ElemHook = func(ev *fake.Event, resp map[string]any) map[string]any {
				tmu.Lock()
				isTarget := ev.CallID == targetCall
				tmu.Unlock()
				if isTarget && ev.Pos == ev.BatchSize-1 && pos != ev.BatchSize-1 {
					l := make([]any, len(second))
					for i := range second {
						l[i] = second[i]
					}
					return map[string]any{"errors": l, "data": nil}
				}
				return resp
			}
		}
	}
	hr := r2.Query(&sp.Op)
	tags := map[string]bool{"fault:" + kind: true}
	if sp.Status != 0 {
		tags[fmt.Sprintf("status-%d", sp.Status)] = true
	}
	if sp.Second && target.sz >= 2 && pos != target.sz-1 {
		tags["two-failing-elements-in-one-batch"] = true
	}
	res.Tags = sortedKeys(tags)
	res.NonTrivial = true
	res.Key = hashStr("errors", sp.Op.Query, fmt.Sprint(target), fmt.Sprint(pos), jsonStr(sp.Errs), fmt.Sprint(sp.Second))
	res.Counters["error_payloads"] = 1
	res.Counters["errors_injected"] = len(sp.Errs)
	if hr.Panic != nil {
		return fail("handler-panic: "+errTemplate(fmt.Sprint(hr.Panic)), fmt.Sprint(hr.Panic)+"\n"+hr.Stack)
	}
	g, derr := rig.DecodeSingle(hr.Body)
	if derr != nil {
		return fail("malformed-response", derr.Error()+": "+head(string(hr.Body), 300))
	}
	want := append([]map[string]any{}, sp.Errs...)
	if tags["two-failing-elements-in-one-batch"] {
		// only when the second payload really went out with the targeted call
		injected := false
		for _, e := range r2.Log.Since(0) {
			tmu.Lock()
			isTarget := e.CallID == targetCall
			tmu.Unlock()
			if isTarget && e.Pos == e.BatchSize-1 && e.BatchSize >= 2 && pos != e.BatchSize-1 {
				injected = true
			}
		}
		if injected {
			want = append(want, second...)
		}
	}
	if targetCall < 0 {
		// the targeted call did not happen in this run (call numbering of concurrent calls differs from the dry run)
		res.Verdict, res.Symptom = run.Inconclusive, "target-call-not-reached"
		return []run.Result{res}
	}
	used := make([]bool, len(g.Errors))
	for _, w := range want {
		found := false
		var near string
		for gi, ge := range g.Errors {
			gm, _ := ge.(map[string]any)
			if used[gi] || gm == nil || gm["message"] != w["message"] {
				continue
			}
			near = jsonStr(gm)
			if ext, has := w["extensions"]; has && ext != nil {
				if !reflect.DeepEqual(rig.Roundtrip(ext), gm["extensions"]) {
					continue
				}
			}
			wp, hasP := w["path"]
			gp := gm["path"]
			if hasP && len(wp.([]any)) > 0 {
				if !reflect.DeepEqual(rig.Roundtrip(wp), gp) {
					continue
				}
			}
			found = true
			used[gi] = true
			break
		}
		if !found {
			sym := "downstream-error-lost"
			if near != "" {
				sym = "downstream-error-altered"
			}
			return fail(sym, fmt.Sprintf("service %s call %d element %d answered with %s; client errors: %s (closest: %s)", target.svc, target.n, pos, jsonStr(w), head(jsonStr(g.Errors), 600), near))
		}
	}
	if idx%11 == 0 {
		res.Sample = map[string]any{"mode": "errors", "operation": sp.Op.Query, "injected": sp.Errs, "at": fmt.Sprint(target), "client_errors": g.Errors}
	}
	return []run.Result{res}
}
