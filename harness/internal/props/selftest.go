package props

import (
	"encoding/json"
	"fmt"
	"reflect"
	"sort"
	"strings"

	"verif/harness/internal/engine"
	"verif/harness/internal/facts"
	"verif/harness/internal/gen"
	"verif/harness/internal/rig"

	"github.com/vektah/gqlparser/v2"
	"github.com/vektah/gqlparser/v2/ast"
)

// mapResolver resolves fields from nested Go maps (used by the engine examples).
type mapResolver struct{ root map[string]any }

func (m mapResolver) Resolve(s *ast.Schema, obj *engine.Obj, fd *ast.FieldDefinition, args map[string]any) any {
	var cur map[string]any
	if obj.Val == nil {
		cur = m.root
	} else {
		cur = obj.Val.(map[string]any)
	}
	v := cur[fd.Name]
	if fn, ok := v.(func(map[string]any) any); ok {
		v = fn(args)
	}
	return wrapMaps(v)
}

func wrapMaps(v any) any {
	switch x := v.(type) {
	case map[string]any:
		t, _ := x["__type"].(string)
		return &engine.Obj{Type: t, Val: x}
	case []any:
		o := make([]any, len(x))
		for i := range x {
			o[i] = wrapMaps(x[i])
		}
		return o
	}
	return v
}

const stSDL = `
interface Pet { name: String }
type Dog implements Pet { name: String barks: Boolean }
type Cat implements Pet { name: String lives: Int }
union Any = Dog | Cat
type Query { pets: [Pet] first: Any echo(n: Int = 7, s: String): String nn: Int! maybe: Dog matrix: [[Int]] }
`

type stCase struct {
	q    string
	vars map[string]any
	want string
}

func engineExamples() []string {
	s, err := gqlparser.LoadSchema(&ast.Source{Input: stSDL})
	if err != nil {
		return []string{"selftest schema: " + err.Error()}
	}
	dog := map[string]any{"__type": "Dog", "name": "rex", "barks": true}
	cat := map[string]any{"__type": "Cat", "name": "tom", "lives": 9}
	root := map[string]any{"pets": []any{dog, cat, nil}, "first": cat, "nn": 5, "maybe": nil, "matrix": []any{[]any{1, 2}, nil, []any{}},
		"echo": func(a map[string]any) any { return fmt.Sprintf("n=%v s=%v", a["n"], a["s"]) }}
	cases := []stCase{
		{`{ pets { name ... on Dog { barks } ... on Cat { lives } } }`, nil, `{"pets":[{"name":"rex","barks":true},{"name":"tom","lives":9},null]}`},
		{`{ a: first { __typename ... on Cat { n: name } } }`, nil, `{"a":{"__typename":"Cat","n":"tom"}}`},
		{`query($x: Boolean!) { nn @skip(if: $x) maybe { name } }`, map[string]any{"x": true}, `{"maybe":null}`},
		{`query($x: Boolean = false) { nn @include(if: $x) m: nn }`, nil, `{"m":5}`},
		{`{ echo }`, nil, `{"echo":"n=7 s=<nil>"}`},
		{`query($n: Int = 3, $s: String) { echo(n: $n, s: $s) }`, map[string]any{"s": "q"}, `{"echo":"n=3 s=q"}`},
		{`query($n: Int) { echo(n: $n) }`, map[string]any{"n": nil}, `{"echo":"n=<nil> s=<nil>"}`},
		{`{ pets { ...F } } fragment F on Pet { name ...G } fragment G on Dog { barks }`, nil, `{"pets":[{"name":"rex","barks":true},{"name":"tom"},null]}`},
		{`{ first { ... on Dog { name } } }`, nil, `{"first":{}}`},
		{`{ matrix }`, nil, `{"matrix":[[1,2],null,[]]}`},
		{`{ pets { name } pets { ... on Cat { lives } } }`, nil, `{"pets":[{"name":"rex"},{"name":"tom","lives":9},null]}`},
	}
	var bad []string
	for _, c := range cases {
		res := engine.Execute(s, engine.Request{Query: c.q, Variables: c.vars}, mapResolver{root}, "")
		if len(res.Errors) > 0 {
			bad = append(bad, fmt.Sprintf("%s: errors %v", c.q, res.Errors[0].Message))
			continue
		}
		var want any
		json.Unmarshal([]byte(c.want), &want)
		if got := rig.Roundtrip(res.Data); !reflect.DeepEqual(got, want) {
			bad = append(bad, fmt.Sprintf("%s: got %s want %s", c.q, jsonStr(got), c.want))
		}
	}
	return bad
}

// rebuildSDL turns a standard introspection answer into SDL (harness's own, independent rebuild).
func rebuildSDL(data map[string]any) string {
	var b strings.Builder
	sch := data["__schema"].(map[string]any)
	str := func(v any) string { s, _ := v.(string); return s }
	var typeRef func(t map[string]any) string
	typeRef = func(t map[string]any) string {
		switch str(t["kind"]) {
		case "NON_NULL":
			return typeRef(t["ofType"].(map[string]any)) + "!"
		case "LIST":
			return "[" + typeRef(t["ofType"].(map[string]any)) + "]"
		}
		return str(t["name"])
	}
	desc := func(m map[string]any, ind string) {
		if d := str(m["description"]); d != "" {
			fmt.Fprintf(&b, "%s%q\n", ind, d)
		}
	}
	args := func(l []any) string {
		if len(l) == 0 {
			return ""
		}
		var ps []string
		for _, a := range l {
			am := a.(map[string]any)
			p := ""
			if d := str(am["description"]); d != "" {
				p = fmt.Sprintf("%q ", d)
			}
			p += str(am["name"]) + ": " + typeRef(am["type"].(map[string]any))
			if dv, ok := am["defaultValue"].(string); ok {
				p += " = " + dv
			}
			ps = append(ps, p)
		}
		return "(" + strings.Join(ps, ", ") + ")"
	}
	depr := func(m map[string]any) string {
		if d, _ := m["isDeprecated"].(bool); d {
			if r, ok := m["deprecationReason"].(string); ok {
				return fmt.Sprintf(" @deprecated(reason: %q)", r)
			}
			return " @deprecated(reason: null)"
		}
		return ""
	}
	roots := []string{}
	for _, k := range []string{"queryType", "mutationType", "subscriptionType"} {
		if m, ok := sch[k].(map[string]any); ok && m != nil {
			roots = append(roots, strings.TrimSuffix(k, "Type")+": "+str(m["name"]))
		}
	}
	b.WriteString("schema { " + strings.Join(roots, " ") + " }\n")
	for _, d := range sch["directives"].([]any) {
		dm := d.(map[string]any)
		n := str(dm["name"])
		if n == "skip" || n == "include" || n == "deprecated" || n == "specifiedBy" {
			continue
		}
		desc(dm, "")
		var locs []string
		for _, l := range dm["locations"].([]any) {
			locs = append(locs, str(l))
		}
		rep := ""
		if r, _ := dm["isRepeatable"].(bool); r {
			rep = " repeatable"
		}
		fmt.Fprintf(&b, "directive @%s%s%s on %s\n", n, args(dm["args"].([]any)), rep, strings.Join(locs, " | "))
	}
	for _, t := range sch["types"].([]any) {
		tm := t.(map[string]any)
		n := str(tm["name"])
		if strings.HasPrefix(n, "__") || n == "Int" || n == "Float" || n == "String" || n == "Boolean" || n == "ID" {
			continue
		}
		desc(tm, "")
		impl := ""
		if l, ok := tm["interfaces"].([]any); ok && len(l) > 0 {
			var ns []string
			for _, i := range l {
				ns = append(ns, typeRef(i.(map[string]any)))
			}
			impl = " implements " + strings.Join(ns, " & ")
		}
		fields := func() {
			b.WriteString(" {\n")
			if l, ok := tm["fields"].([]any); ok {
				for _, f := range l {
					fm := f.(map[string]any)
					desc(fm, "  ")
					fmt.Fprintf(&b, "  %s%s: %s%s\n", str(fm["name"]), args(fm["args"].([]any)), typeRef(fm["type"].(map[string]any)), depr(fm))
				}
			}
			b.WriteString("}\n")
		}
		switch str(tm["kind"]) {
		case "SCALAR":
			b.WriteString("scalar " + n)
			if u, ok := tm["specifiedByURL"].(string); ok {
				fmt.Fprintf(&b, " @specifiedBy(url: %q)", u)
			}
			b.WriteString("\n")
		case "OBJECT":
			b.WriteString("type " + n + impl)
			fields()
		case "INTERFACE":
			b.WriteString("interface " + n + impl)
			fields()
		case "UNION":
			var ns []string
			for _, p := range tm["possibleTypes"].([]any) {
				ns = append(ns, str(p.(map[string]any)["name"]))
			}
			b.WriteString("union " + n + " = " + strings.Join(ns, " | ") + "\n")
		case "ENUM":
			b.WriteString("enum " + n + " {\n")
			for _, ev := range tm["enumValues"].([]any) {
				em := ev.(map[string]any)
				desc(em, "  ")
				b.WriteString("  " + str(em["name"]) + depr(em) + "\n")
			}
			b.WriteString("}\n")
		case "INPUT_OBJECT":
			b.WriteString("input " + n + " {\n")
			for _, f := range tm["inputFields"].([]any) {
				fm := f.(map[string]any)
				desc(fm, "  ")
				fmt.Fprintf(&b, "  %s: %s", str(fm["name"]), typeRef(fm["type"].(map[string]any)))
				if dv, ok := fm["defaultValue"].(string); ok {
					b.WriteString(" = " + dv)
				}
				b.WriteString("\n")
			}
			b.WriteString("}\n")
		}
	}
	return b.String()
}

// introspectionRoundTrip checks that the reference engine's introspection answer rebuilds into an equal schema.
func introspectionRoundTrip(n int) []string {
	var bad []string
	for i := 0; i < n; i++ {
		r := rng(77, "selftest/schema", i)
		f := gen.RandomFeatures(r)
		if f.MaxWrapDepth > 7 {
			f.MaxWrapDepth = 7
		}
		sdl := gen.GenSchema(r, f)
		s, err := gqlparser.LoadSchema(&ast.Source{Input: sdl})
		if err != nil {
			bad = append(bad, "generator produced an invalid schema: "+err.Error())
			continue
		}
		res := engine.Execute(s, engine.Request{Query: stdIntrospection2}, nil, "")
		if len(res.Errors) > 0 {
			bad = append(bad, "engine introspection errors: "+res.Errors[0].Message)
			continue
		}
		re := rebuildSDL(rig.Roundtrip(res.Data).(map[string]any))
		s2, err := gqlparser.LoadSchema(&ast.Source{Input: re})
		if err != nil {
			bad = append(bad, fmt.Sprintf("rebuilt SDL of schema %d does not load: %v", i, err))
			continue
		}
		a, b := facts.Diff(facts.Of(s, facts.All()), facts.Of(s2, facts.All()))
		if len(a)+len(b) > 0 {
			sort.Strings(a)
			bad = append(bad, fmt.Sprintf("schema %d: lost %v invented %v", i, truncList(a, 5), truncList(b, 5)))
		}
	}
	return bad
}

// universeSoundness checks that generated universes project to loadable services whose facts union is the monolith's.
func universeSoundness(n int) []string {
	var bad []string
	for i := 0; i < n; i++ {
		cu, err := universe(99, "selftest", i, stdProfile)
		if err != nil {
			bad = append(bad, err.Error())
			continue
		}
		o := facts.All()
		var sets []facts.Set
		for _, sv := range cu.spec.Services {
			sc, _ := gqlparser.LoadSchema(&ast.Source{Input: sv.SDL})
			sets = append(sets, facts.Of(sc, o))
		}
		a, b := facts.Diff(facts.Of(cu.mono, o), facts.Union(sets...))
		if len(a)+len(b) > 0 {
			bad = append(bad, fmt.Sprintf("universe %d: monolith-only %v services-only %v", i, truncList(a, 5), truncList(b, 5)))
		}
	}
	return bad
}

// SelfTest runs the harness self-checks (engine examples, introspection round trip, generator soundness).
func SelfTest() int {
	rc := 0
	for name, bad := range map[string][]string{
		"engine examples":                      engineExamples(),
		"engine introspection rebuilds":        introspectionRoundTrip(60),
		"universe projection = monolith facts": universeSoundness(40),
	} {
		if len(bad) == 0 {
			fmt.Printf("selftest: %s: ok\n", name)
			continue
		}
		rc = 2
		for _, b := range bad {
			fmt.Printf("selftest: %s: FAIL: %s\n", name, b)
		}
	}
	return rc
}
