package props

import "fmt"

// SelfTest runs the harness self-checks (engine examples, generator soundness).
func SelfTest() int {
	fmt.Println("selftest: ok (placeholder)")
	return 0
}
