package props

import (
	"encoding/json"
	"fmt"
	"regexp"
	"sort"
	"strings"
	"time"

	"verif/harness/internal/fake"
	"verif/harness/internal/gen"
	"verif/harness/internal/rig"
	"verif/harness/internal/run"
	"verif/harness/internal/sched"

	"github.com/buildbuildio/pebbles/planner"
	"github.com/vektah/gqlparser/v2"
	"github.com/vektah/gqlparser/v2/ast"
)

// C13 — planning and responses are deterministic.
type c13 struct{}

type c13Case struct {
	U       rig.UniverseSpec `json:"universe"`
	Cfg     rig.Config       `json:"config"`
	Op      gen.Op           `json:"op"`
	Poison  string           `json:"poison_root_field,omitempty"`
	Jitter  uint64           `json:"jitter_seed"`
	Repeats int              `json:"repeats"`
	Fresh   int              `json:"fresh_gateways"`
}

func (c13) ID() string            { return "C13" }
func (c13) Level() string         { return "exploration" }
func (c13) RaceIsViolation() bool { return true }
func (c13) Rule() string {
	return "cases = generated universe x generated operation (FULL feature profile: determinism is required even where C01 has known findings) x {plain, caching planner}; " +
		"(a) SequentialPlanner.Plan is called 30 times on fresh parses of the same operation (Go randomises map iteration, which reorders steps): the canonical plan (steps sorted recursively; URL, parent type, insertion point, query text, variables list; scrub table) must be identical; " +
		"(b) the same HTTP request is sent 12 times to one gateway and 3 times to each of 3 freshly built gateways, with AsyncMapReduce hook jitter and pseudo-random per-call service delays (so the completion order of concurrent steps varies), optionally with a poisoned root field so that several steps fail concurrently: `data` must be identical, `errors` equal as multisets, and the per-service multiset of (sub-request text, variables) identical; race detector on; " +
		"distinct = distinct (universe, operation, config); non-trivial = plan has >= 2 steps; evidence counts distinct raw step orders observed per plan"
}
func (c13) Assumptions() []string {
	return []string{"fake services are deterministic functions of the sub-request", "service delays are derived from the jitter seed, not from wall-clock decisions"}
}
func (p c13) per(c *run.Ctx) (int, int) {
	if c.Tier == "thorough" {
		return 100, 150
	}
	return 16, 48
}
func (p c13) NumCases(c *run.Ctx) int  { u, o := p.per(c); return u * o }
func (p c13) BatchSize(c *run.Ctx) int { return 10 }

func (p c13) Gen(c *run.Ctx, idx int) (json.RawMessage, error) {
	_, o := p.per(c)
	uidx := idx / o
	cu, err := universe(c.Seed, "std", uidx, stdProfile)
	if err != nil {
		return nil, err
	}
	r := rng(c.Seed, "c13/op", idx)
	prof := gen.DefaultOpProfile()
	prof.PNodeRoot = 0.25
	prof.Pool = cu.spec.Data.Pool
	if idx%4 == 2 {
		// several root steps answering the same key: node(id:) with member fragments owned by different services
		prof.ForceNodeRoot, prof.PNodeSecond = true, 0.8
		if idx%8 == 2 {
			prof.PNodeIDOnly, prof.PNodeSecond = 0.4, 0.2
		}
	}
	if r.Intn(6) == 0 && cu.mono.Mutation != nil {
		prof.Kind = ast.Mutation
	}
	var op *gen.Op
	if idx%8 == 6 {
		op = genNodeSpanProbe(r, cu, cu.spec.Data.IDStyle, cu.spec.Data.Pool)
	}
	if idx%8 == 5 {
		// introspection answers are data too: same order every time, also when `name` is not selected or aliased
		switch r.Intn(5) {
		case 0:
			op = &gen.Op{Query: "{ __schema { types { kind } } }"}
		case 1:
			op = &gen.Op{Query: "{ __schema { types { kind description fields { type { kind } } } directives { locations args { type { kind } } } } }"}
		case 2:
			op = &gen.Op{Query: "{ __schema { types { n: name kind } directives { n: name } } }"}
		default:
			op = genIntrospectionOp(r, cu.mono)
		}
		op.Tags = append(op.Tags, "introspection")
	}
	if op == nil {
		op = genValidOp(r, cu.mono, prof)
	}
	if op == nil {
		return nil, nil
	}
	cs := c13Case{U: cu.spec, Op: *op, Jitter: uint64(r.Int63()), Repeats: 12, Fresh: 3}
	if r.Intn(4) == 0 {
		cs.Cfg.Planner, cs.Cfg.TTLms = "cached", 3600000
	}
	if r.Intn(4) == 0 {
		cs.Cfg.Hint = true
	}
	if r.Intn(3) == 0 {
		cs.Poison = firstScalarRoot(cu.mono)
	}
	return mustJSON(cs), nil
}

type canonStep struct {
	URL, Parent, IP, Query, Vars string
	Then                         []canonStep
}

func canonSteps(sts []*planner.QueryPlanStep) ([]canonStep, string) {
	var out []canonStep
	var raw []string
	for _, s := range sts {
		ch, chRaw := canonSteps(s.Then)
		out = append(out, canonStep{s.URL, s.ParentType, strings.Join(s.InsertionPoint, "/"), s.QueryString, strings.Join(s.VariablesList, ","), ch})
		raw = append(raw, s.URL+"|"+strings.Join(s.InsertionPoint, "/")+"["+chRaw+"]")
	}
	sort.Slice(out, func(i, j int) bool {
		a, _ := json.Marshal(out[i])
		b, _ := json.Marshal(out[j])
		return string(a) < string(b)
	})
	return out, strings.Join(raw, ";")
}

func urlToName(r *rig.Rig, s string) string {
	for _, svc := range r.Services {
		s = strings.ReplaceAll(s, svc.URL, svc.Name)
	}
	return s
}

func (p c13) Exec(c *run.Ctx, idx int, raw json.RawMessage) []run.Result {
	var sp c13Case
	if err := json.Unmarshal(raw, &sp); err != nil {
		return []run.Result{{Verdict: "broken", Message: err.Error()}}
	}
	res := run.Result{Verdict: run.Held, Counters: map[string]int{}}
	fail := func(sym, msg string) []run.Result {
		res.Verdict, res.Symptom, res.Message = run.Violated, sym, msg+"\noperation: "+sp.Op.Query+"\nvariables: "+gen.MarshalVars(sp.Op.Variables)
		return []run.Result{res}
	}
	type obs struct {
		data   string
		errs   string
		subs   string
		status int
	}
	var first *obs
	var firstWhere string
	var opTags []string
	if mono, _, merr := rig.LoadMono(sp.U); merr == nil {
		if doc, gerr := gqlparser.LoadQuery(mono, sp.Op.Query); gerr == nil {
			var od *ast.OperationDefinition
			if sp.Op.OperationName != "" {
				od = doc.Operations.ForName(sp.Op.OperationName)
			} else if len(doc.Operations) == 1 {
				od = doc.Operations[0]
			}
			if od != nil {
				t := map[string]bool{}
				opFacts(mono, doc, od, sp.Op.Variables, t)
				opTags = sortedKeys(t)
			}
		}
	}
	res.Tags = opTags
	rawOrders := map[string]bool{}
	gateways := 1 + sp.Fresh
	for g := 0; g < gateways; g++ {
		r, err := rig.New(sp.U, sp.Cfg)
		if err != nil {
			if r != nil {
				r.Close()
			}
			res.Verdict = run.Skip
			res.Counters["setup_failed"] = 1
			return []run.Result{res}
		}
		if g == 0 {
			// (a) plan determinism
			var canon0 string
			for i := 0; i < 30; i++ {
				steps, _, _, plan, perr := planShape(r, &sp.Op)
				if perr != nil {
					if i == 0 {
						canon0 = "ERR:" + errTemplate(perr.Error())
						continue
					}
					if canon0 != "ERR:"+errTemplate(perr.Error()) {
						r.Close()
						return fail("plan-error-not-deterministic", perr.Error())
					}
					continue
				}
				if i == 0 {
					res.NonTrivial = steps >= 2
				}
				cs, rawOrder := canonSteps(plan.RootSteps)
				rawOrders[rawOrder] = true
				b, _ := json.Marshal(cs)
				sf, _ := json.Marshal(plan.ScrubFields)
				cur := urlToName(r, string(b)) + "\nscrub=" + string(sf)
				if i == 0 {
					canon0 = cur
				} else if cur != canon0 {
					r.Close()
					return fail("plan-not-deterministic", fmt.Sprintf("plan #%d differs from plan #0:\n%s\n--- vs ---\n%s", i, head(cur, 1500), head(canon0, 1500)))
				}
			}
			res.Counters["plans_compared"] = 30
			res.Counters["distinct_raw_step_orders"] = len(rawOrders)
		}
		reps := 3
		if g == 0 {
			reps = sp.Repeats
		}
		for rep := 0; rep < reps; rep++ {
			seed := sp.Jitter + uint64(g*100+rep)*104729
			for _, s := range r.Services {
				s := s
				s.Before = func(cl *fake.Call) {
					h := hashStr(fmt.Sprint(seed), s.Name, fmt.Sprint(cl.SvcCall))
					var v uint64
					fmt.Sscanf(h[:6], "%x", &v)
					if v%3 != 0 {
						time.Sleep(time.Duration(v%400) * time.Microsecond)
					}
				}
				if sp.Poison != "" && sp.Poison != "__typename" {
					s.FaultFn = func(cl *fake.Call) *fake.Fault {
						for _, rq := range cl.Requests {
							if strings.Contains(rq.Query, sp.Poison) {
								return &fake.Fault{Kind: "errors", Pos: -1, Errs: []map[string]any{{"message": "poisoned by " + s.Name}}}
							}
						}
						return nil
					}
				}
			}
			if sp.Cfg.Planner == "cached" && rep > 0 && rep%2 == 1 {
				// history: interleave a near twin of the operation (explicit ids removed / added) between repetitions
				for _, tw := range opTwins(&sp.Op) {
					if _, e := gqlparser.LoadQuery(r.Merged.Schema, tw.Query); e == nil {
						r.Query(&tw)
						res.Counters["twin_requests_interleaved"]++
					}
				}
			}
			sched.Install(sched.Options{Seed: seed, Jitter: true, Record: true, MaxEvents: 3000})
			mark := r.Log.Len()
			hr := r.Query(&sp.Op)
			evs := r.Log.Since(mark)
			for _, h := range sched.TraceHashes(sched.Events()) {
				res.Traces = append(res.Traces, h)
			}
			sched.Uninstall()
			if hr.Panic != nil {
				r.Close()
				return fail("handler-panic: "+errTemplate(fmt.Sprint(hr.Panic)), fmt.Sprint(hr.Panic)+"\n"+hr.Stack)
			}
			gq, derr := rig.DecodeSingle(hr.Body)
			if derr != nil {
				r.Close()
				return fail("malformed-response", derr.Error())
			}
			var subs []string
			for _, e := range evs {
				subs = append(subs, e.Service+"|"+e.Query+"|"+gen.MarshalVars(e.Variables))
			}
			sort.Strings(subs)
			o := &obs{data: jsonStr(gq.Data), errs: strings.Join(normErrors(gq.Errors), "\n"), subs: strings.Join(subs, "\n"), status: hr.Status}
			// service URLs differ between fresh gateways: normalise
			o.errs = urlToName(r, o.errs)
			res.Counters["requests"]++
			where := fmt.Sprintf("gateway %d request %d", g, rep)
			if first == nil {
				first, firstWhere = o, where
				continue
			}
			if o.data != first.data {
				r.Close()
				return fail("data-differs-between-repetitions", fmt.Sprintf("%s: %s\n%s: %s", firstWhere, head(first.data, 800), where, head(o.data, 800)))
			}
			if o.errs != first.errs {
				r.Close()
				return fail("errors-differ-between-repetitions", fmt.Sprintf("%s: %s\n%s: %s", firstWhere, head(first.errs, 600), where, head(o.errs, 600)))
			}
			if o.subs != first.subs {
				r.Close()
				return fail("subrequests-differ-between-repetitions", fmt.Sprintf("%s:\n%s\n%s:\n%s", firstWhere, head(first.subs, 900), where, head(o.subs, 900)))
			}
		}
		r.Close()
	}
	res.Key = hashStr(specHashOf(sp.U), sp.Op.Query, gen.MarshalVars(sp.Op.Variables), sp.Cfg.String(), sp.Poison)
	res.Tags = append(cfgTags(sp.Cfg), opTags...)
	if sp.Poison != "" {
		res.Tags = append(res.Tags, "poison")
	}
	if res.NonTrivial && idx%9 == 0 {
		res.Sample = map[string]any{"operation": sp.Op.Query, "config": sp.Cfg.String(), "distinct_raw_step_orders": len(rawOrders), "requests": res.Counters["requests"]}
	}
	return []run.Result{res}
}

var idTokRe = regexp.MustCompile(`\{ id ([a-zA-Z_.])`)
var openRe = regexp.MustCompile(`([a-z][A-Za-z0-9]*) \{ ([a-ce-hj-z])`)

// opTwins derives operations that differ from op only in explicitly selected id fields.
func opTwins(op *gen.Op) []gen.Op {
	var out []gen.Op
	if q := idTokRe.ReplaceAllString(op.Query, "{ $1"); q != op.Query {
		t := *op
		t.Query = q
		out = append(out, t)
	}
	if q := openRe.ReplaceAllString(op.Query, "$1 { id $2"); q != op.Query {
		t := *op
		t.Query = q
		out = append(out, t)
	}
	return out
}
