package props

import (
	"encoding/json"
	"fmt"
	"math/rand"
	"runtime/debug"
	"sort"
	"strings"

	"verif/harness/internal/facts"
	"verif/harness/internal/gen"
	"verif/harness/internal/rig"
	"verif/harness/internal/run"

	"github.com/buildbuildio/pebbles/merger"
	"github.com/vektah/gqlparser/v2"
	"github.com/vektah/gqlparser/v2/ast"
	"github.com/vektah/gqlparser/v2/formatter"
)

// shared by C03, C04, C05
type mergeCase struct {
	U        rig.UniverseSpec `json:"universe"`
	Perm     []int            `json:"perm"`
	Sanitize bool             `json:"sanitize"`
	Edit     string           `json:"edit,omitempty"` // C05: conflict edit kind ("" = mergeable)
	EditAt   []int            `json:"edit_at,omitempty"`
	Benign   bool             `json:"benign_edit,omitempty"` // C05: the edit keeps the set mergeable (pairwise identical / disjoint): accepted in every order
	UIdx     int              `json:"universe_index"`
}

func mergeProfile(r *rand.Rand) (gen.Profile, gen.DataCfg) {
	p := gen.DefaultProfile()
	p.Directives = r.Intn(2) == 0
	p.Descriptions = r.Intn(2) == 0
	if r.Intn(3) == 0 {
		p.DropNode = 0.4
	}
	p.SharedRoots = r.Intn(3) == 0
	p.NodeLookalike = 0.3
	p.SpreadEnum = r.Intn(3) == 0
	p.SplitValue = 0.3
	p.BareEntity = 0.3
	// universes are drawn with these flags off and on alike (they consume randomness only when set)
	if r.Intn(3) == 0 {
		p.NodeNamedField, p.ScalarArgs = 0.4, true
	}
	if r.Intn(2) == 0 {
		p.PartialImpl = 0.6
	}
	if r.Intn(3) == 0 {
		p.ValueWithID = 0.6
	}
	if r.Intn(3) == 0 {
		p.IfaceImplNode = 0.7
	}
	if r.Intn(3) == 0 {
		p.Underscore = 0.8
	}
	if r.Intn(3) == 0 {
		p.PluralNodes = 0.7
	}
	return p, gen.DataCfg{Seed: 1, ListMax: 2, Pool: 3}
}

func permutations(n int) [][]int {
	var out [][]int
	var rec func(cur []int, used []bool)
	rec = func(cur []int, used []bool) {
		if len(cur) == n {
			out = append(out, append([]int{}, cur...))
			return
		}
		for i := 0; i < n; i++ {
			if !used[i] {
				used[i] = true
				rec(append(cur, i), used)
				used[i] = false
			}
		}
	}
	rec(nil, make([]bool, n))
	return out
}

type mergeOutcome struct {
	res   *merger.MergeResult
	err   error
	panic any
	stack string
	urls  []string
}

// svcURL is the url service i is configured with; every other one ends with a slash (an endpoint mounted at /graphql/):
// the url is the service's identity in the routing table, spelled as configured.
func svcURL(i int) string {
	if i%2 == 1 {
		return fmt.Sprintf("http://svc%d.test/graphql/", i)
	}
	return fmt.Sprintf("http://svc%d.test/graphql", i)
}

func doMerge(svcs []rig.ServiceSpec, perm []int, sanitize bool) (out mergeOutcome) {
	parsed := make([]*ast.Schema, len(svcs))
	for _, i := range perm {
		s, err := gqlparser.LoadSchema(&ast.Source{Name: svcs[i].Name, Input: svcs[i].SDL})
		if err != nil {
			out.err = fmt.Errorf("HARNESS: service SDL does not load: %v", err)
			return
		}
		parsed[i] = s
	}
	return doMergeParsed(parsed, perm, sanitize)
}

// doMergeParsed merges already parsed service schemas (they may be reused across calls).
func doMergeParsed(parsed []*ast.Schema, perm []int, sanitize bool) (out mergeOutcome) {
	var inputs []*merger.MergeInput
	for _, i := range perm {
		inputs = append(inputs, &merger.MergeInput{Schema: parsed[i], URL: svcURL(i)})
		out.urls = append(out.urls, svcURL(i))
	}
	defer func() {
		if p := recover(); p != nil {
			out.panic = p
			out.stack = string(debug.Stack())
		}
	}()
	var m merger.Merger
	if sanitize {
		var sm merger.SanitizeNodeMergerFunc
		m = sm
	} else {
		var em merger.ExtendMergerFunc
		m = em
	}
	out.res, out.err = m.Merge(inputs)
	return
}

func serviceFacts(svcs []rig.ServiceSpec, o facts.Options) (facts.Set, []*ast.Schema, error) {
	var sets []facts.Set
	var schemas []*ast.Schema
	for _, s := range svcs {
		sc, err := gqlparser.LoadSchema(&ast.Source{Name: s.Name, Input: s.SDL})
		if err != nil {
			return nil, nil, err
		}
		schemas = append(schemas, sc)
		sets = append(sets, facts.Of(sc, o))
	}
	return facts.Union(sets...), schemas, nil
}

func truncList(l []string, n int) string {
	if len(l) > n {
		return strings.Join(l[:n], "; ") + fmt.Sprintf("; ... (%d more)", len(l)-n)
	}
	return strings.Join(l, "; ")
}

// ---------------------------------------------------------------- C03

type c03 struct{}

func (c03) ID() string            { return "C03" }
func (c03) Level() string         { return "exploration" }
func (c03) RaceIsViolation() bool { return false }
func (c03) Rule() string {
	return "cases = generated mergeable universe (1-4 services; entity/value/interface/union/enum/input/scalar types, directives, descriptions, deprecations, services without `node`) x EVERY permutation of the service list x {default, node-hiding merger}; " +
		"oracle = fact set of the merged schema (types, kinds, fields, argument name/type/default, enum values, union members, implements edges, input fields+defaults, directive definitions, descriptions, deprecations, roots) equals the union of the services' fact sets (minus Query.node under the node-hiding merger), merged schema re-prints and re-loads, and operations valid on one service stay valid on the merged schema; " +
		"distinct = distinct (universe hash, permutation, merger); non-trivial = k >= 2 services"
}
func (c03) Assumptions() []string {
	return []string{"fact extraction (harness/internal/facts) over gqlparser's ast.Schema", "service SDLs are loaded with gqlparser.LoadSchema exactly as the introspector's output would be"}
}

func c03Universes(tier string) int {
	if tier == "thorough" {
		return 4000
	}
	return 60
}

const permSlots = 24 * 2

func (p c03) NumCases(c *run.Ctx) int { return c03Universes(c.Tier) * permSlots }

func (p c03) Gen(c *run.Ctx, idx int) (json.RawMessage, error) {
	return genMergeCase(c, idx, "merge")
}

func genMergeCase(c *run.Ctx, idx int, salt string) (json.RawMessage, error) {
	uidx := idx / permSlots
	slot := idx % permSlots
	cu, err := universe(c.Seed, salt, uidx, mergeProfile)
	if err != nil {
		return nil, err
	}
	perms := permutations(len(cu.spec.Services))
	pi := slot / 2
	if pi >= len(perms) {
		return nil, nil
	}
	return mustJSON(mergeCase{U: cu.spec, Perm: perms[pi], Sanitize: slot%2 == 1, UIdx: uidx}), nil
}

func (p c03) Exec(c *run.Ctx, idx int, raw json.RawMessage) []run.Result {
	var sp mergeCase
	if err := json.Unmarshal(raw, &sp); err != nil {
		return []run.Result{{Verdict: "broken", Message: err.Error()}}
	}
	res := run.Result{Verdict: run.Held, Counters: map[string]int{}}
	k := len(sp.U.Services)
	res.NonTrivial = k >= 2
	res.Key = hashStr(specHashOf(sp.U), fmt.Sprint(sp.Perm), fmt.Sprint(sp.Sanitize))
	tags := map[string]bool{fmt.Sprintf("k=%d", k): true}
	if sp.Sanitize {
		tags["cfg-sanitize"] = true
	}
	want, schemas, err := serviceFacts(sp.U.Services, facts.All())
	if err != nil {
		return []run.Result{{Verdict: "broken", Message: "generator bug: " + err.Error()}}
	}
	// input-side facts for known-finding predicates
	nodeIn := make([]bool, k)
	anyNode := false
	for i, sc := range schemas {
		if sc.Query != nil && sc.Query.Fields.ForName("node") != nil {
			nodeIn[i] = true
			anyNode = true
		}
	}
	for pos, i := range sp.Perm {
		if anyNode && !nodeIn[i] && pos > 0 {
			tags["later-service-without-node"] = true
		}
		if anyNode && !nodeIn[i] {
			tags["some-service-without-node"] = true
		}
	}
	dirOwners := map[string]int{}
	for _, sc := range schemas {
		for n := range sc.Directives {
			dirOwners[n]++
		}
	}
	for _, sv := range sp.U.Services {
		if strings.Contains(sv.SDL, " repeatable on") {
			tags["repeatable-directive"] = true
		}
	}
	if strings.Contains(sp.U.Mono, "directive @") {
		tags["custom-directive"] = true
	}
	if strings.Contains(sp.U.Mono, "\"") {
		tags["descriptions"] = true
	}
	res.Tags = sortedKeys(tags)

	mo := doMerge(sp.U.Services, sp.Perm, sp.Sanitize)
	fail := func(sym, msg string) []run.Result {
		res.Verdict = run.Violated
		res.Symptom = sym
		res.Message = msg
		return []run.Result{res}
	}
	if mo.panic != nil {
		return fail("merge-panic: "+errTemplate(fmt.Sprint(mo.panic)), fmt.Sprintf("%v\n%s", mo.panic, mo.stack))
	}
	if mo.err != nil {
		if strings.HasPrefix(mo.err.Error(), "HARNESS") {
			return []run.Result{{Verdict: "broken", Message: mo.err.Error()}}
		}
		return fail("mergeable-set-rejected: "+errTemplate(mo.err.Error()), mo.err.Error())
	}
	got := facts.Of(mo.res.Schema, facts.All())
	if sp.Sanitize {
		delete(want, "field Query.node: Node")
		delete(want, "arg Query.node(id: ID! = <none>)")
	}
	missing, extra := facts.Diff(want, got)
	res.Counters["facts_compared"] = len(want)
	var out []run.Result
	if len(missing) > 0 {
		r2 := res
		r2.Verdict = run.Violated
		r2.Symptom = "facts-missing: " + factKinds(missing)
		r2.Message = "declared by a service but absent from the merged schema: " + truncList(missing, 12)
		out = append(out, r2)
	}
	if len(extra) > 0 {
		r2 := res
		r2.Verdict = run.Violated
		r2.Symptom = "facts-extra: " + factKinds(extra)
		r2.Message = "in the merged schema but declared by no service: " + truncList(extra, 12)
		if len(out) > 0 {
			r2.Key, r2.NonTrivial, r2.Counters = "", false, nil
		}
		out = append(out, r2)
	}
	// history: a second Merge over the *same parsed schema objects* (a sub-list in rotated order)
	// must again yield exactly the union of the facts of the services it was given
	if k >= 2 {
		parsed := make([]*ast.Schema, k)
		for i := range sp.U.Services {
			parsed[i], _ = gqlparser.LoadSchema(&ast.Source{Name: sp.U.Services[i].Name, Input: sp.U.Services[i].SDL})
		}
		first := doMergeParsed(parsed, sp.Perm, sp.Sanitize)
		sub := append([]int{}, sp.Perm[:len(sp.Perm)-1]...) // drop the last service
		second := doMergeParsed(parsed, sub, sp.Sanitize)
		if first.err == nil && first.panic == nil && second.panic == nil && second.err == nil {
			var sets []facts.Set
			for _, i := range sub {
				sets = append(sets, facts.Of(schemas[i], facts.All()))
			}
			want2 := facts.Union(sets...)
			if sp.Sanitize {
				delete(want2, "field Query.node: Node")
				delete(want2, "arg Query.node(id: ID! = <none>)")
			}
			m2, e2 := facts.Diff(want2, facts.Of(second.res.Schema, facts.All()))
			res.Counters["second_merge_checked"] = 1
			if len(m2)+len(e2) > 0 {
				r2 := res
				r2.Verdict = run.Violated
				r2.Symptom = "second-merge-of-same-parsed-schemas: " + factKinds(append(m2, e2...))
				r2.Message = fmt.Sprintf("after Merge(%v), Merge(%v) over the same parsed schemas: missing=%s extra=%s", sp.Perm, sub, truncList(m2, 8), truncList(e2, 8))
				r2.Key, r2.NonTrivial, r2.Counters = "", false, nil
				out = append(out, r2)
			}
		} else if second.panic != nil {
			r2 := res
			r2.Verdict = run.Violated
			r2.Symptom = "second-merge-panic"
			r2.Message = fmt.Sprint(second.panic)
			out = append(out, r2)
		}
	}
	// re-print and re-load
	var sb strings.Builder
	formatter.NewFormatter(&sb).FormatSchema(mo.res.Schema)
	if _, lerr := gqlparser.LoadSchema(&ast.Source{Name: "merged", Input: sb.String()}); lerr != nil {
		r2 := res
		r2.Verdict = run.Violated
		r2.Symptom = "merged-schema-does-not-reload"
		r2.Message = lerr.Error()
		out = append(out, r2)
	}
	// consequence: operations valid on one service are valid on the merged schema
	r := rng(c.Seed, "c03/ops", idx)
	for i, sc := range schemas {
		for n := 0; n < 3; n++ {
			prof := gen.DefaultOpProfile()
			prof.Depth = 2
			if sp.Sanitize {
				prof.PNodeRoot = 0
			}
			op := gen.GenOp(r, sc, prof)
			if op == nil {
				continue
			}
			if _, e := gqlparser.LoadQuery(sc, op.Query); e != nil {
				continue
			}
			if sp.Sanitize && strings.Contains(op.Query, "node(") {
				continue
			}
			res.Counters["service_ops_checked"]++
			if _, e := gqlparser.LoadQuery(mo.res.Schema, op.Query); e != nil {
				r2 := res
				r2.Verdict = run.Violated
				r2.Symptom = "service-valid-op-invalid-on-gateway: " + errTemplate(e.Error())
				r2.Message = fmt.Sprintf("valid on %s, invalid on merged schema: %s\n%s", sp.U.Services[i].Name, op.Query, e.Error())
				r2.Key, r2.NonTrivial, r2.Counters = "", false, nil
				out = append(out, r2)
				break
			}
		}
	}
	if len(out) > 0 {
		return out
	}
	if res.NonTrivial {
		res.Sample = map[string]any{"services": k, "perm": sp.Perm, "sanitize": sp.Sanitize, "facts": len(want), "first_service_sdl": head(sp.U.Services[0].SDL, 400)}
	}
	return []run.Result{res}
}

func head(s string, n int) string {
	if len(s) <= n {
		return s
	}
	return s[:n] + "..."
}

// factKinds summarises which kinds of facts differ (first word of each).
func factKinds(l []string) string {
	m := map[string]bool{}
	for _, f := range l {
		k := strings.SplitN(f, " ", 2)[0]
		if strings.HasPrefix(f, "field Query.node") || strings.HasPrefix(f, "arg Query.node") {
			k = "Query.node"
		}
		m[k] = true
	}
	ks := sortedKeys(m)
	sort.Strings(ks)
	return strings.Join(ks, ",")
}
