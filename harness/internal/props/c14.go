package props

import (
	"encoding/json"
	"fmt"
	"math/rand"
	"regexp"
	"sort"
	"strings"
	"sync"
	"time"

	"verif/harness/internal/gen"
	"verif/harness/internal/rig"
	"verif/harness/internal/run"
	"verif/harness/internal/sched"

	"github.com/vektah/gqlparser/v2"
	"github.com/vektah/gqlparser/v2/ast"
)

// C14 — the plan cache never changes an answer.
type c14 struct{}

type c14Case struct {
	U          rig.UniverseSpec `json:"universe"`
	Pool       []gen.Op         `json:"pool"`
	History    []int            `json:"history"`
	TTLms      int              `json:"ttl_ms"`
	PauseEvery int              `json:"pause_every"` // sleep 2ms after every k-th request (straddles a 1ms ttl)
	Concurrent bool             `json:"concurrent"`
	Jitter     uint64           `json:"jitter_seed"`
}

func (c14) ID() string            { return "C14" }
func (c14) Level() string         { return "exploration" }
func (c14) RaceIsViolation() bool { return true }
func (c14) Rule() string {
	return "twin gateways over identical fake services: A with the plain planner (stateless: its answer to an operation does not depend on history), B with NewCachedPlanner(ttl). " +
		"Operation pools (3-10 operations) are built to collide: a generated base operation plus variants that differ only in operation type (query vs mutation on universes with shared root names), operation name, variable names / definitions / defaults, variable values, fragment name vs type condition / body, explicitly selected ids, and the selected operation of a multi-operation document; " +
		"histories of 2..40 requests drawn from the pool; ttl in {0, 1 ms with pauses straddling expiry, 1 h}; sequential issue and 8 concurrent client goroutines with hook jitter; " +
		"oracle: every response of B equals A's response to the same operation (data exactly, errors as multisets); the race detector watches the shared cached plans; evidence counts cache hits/misses via a counting inner planner; " +
		"distinct = distinct (pool, history, ttl, mode); non-trivial = the history repeats or mixes >= 2 pool entries and at least one request hit the cache"
}
func (c14) Assumptions() []string {
	return []string{"wall-clock only decides which branch (hit / expired) is exercised, never a verdict", "subscriptions interleaved with queries are exercised by C17/C18's workloads on a caching gateway"}
}
func (p c14) per(c *run.Ctx) (int, int) {
	if c.Tier == "thorough" {
		return 100, 300
	}
	return 8, 70
}
func (p c14) NumCases(c *run.Ctx) int  { u, o := p.per(c); return u * o }
func (p c14) BatchSize(c *run.Ctx) int { return 12 }

func sharedRootsProfile(r *rand.Rand) (gen.Profile, gen.DataCfg) {
	p := gen.DefaultProfile()
	p.SharedRoots = true
	if r.Intn(2) == 0 {
		p.ScalarArgs, p.PArgs = true, 0.45
	}
	return p, gen.DataCfg{Seed: uint64(r.Int63()), PNull: 10, ListMax: 2, Pool: 3}
}

var varNameRe = regexp.MustCompile(`\$v(\d+)`)
var defaultRe = regexp.MustCompile(`(\$v\d+: [\[\]A-Za-z!]+) = ([^,)]+)`)
var varDeclRe = regexp.MustCompile(`\$(v\d+): ([\[\]A-Za-z!]+)`)
var inScalarLitRe = regexp.MustCompile(`\[\$(v\d+)\]|\{k: \$(v\d+)\}`)
var fragOnRe = regexp.MustCompile(`fragment (F\d+) on (\w+)`)

// variants derives near twins of op (validity is checked by the caller).
func variants(r *rand.Rand, op *gen.Op, mono *ast.Schema) []gen.Op {
	var out []gen.Op
	add := func(q string, mod func(o *gen.Op)) {
		if q == "" {
			return
		}
		o := *op
		o.Query = q
		if mod != nil {
			mod(&o)
		}
		out = append(out, o)
	}
	q := op.Query
	trim := strings.TrimSpace(q)
	// operation type
	if strings.HasPrefix(trim, "{") {
		add("mutation "+q, nil)
	} else if strings.HasPrefix(trim, "query") {
		add(strings.Replace(q, "query", "mutation", 1), nil)
	} else if strings.HasPrefix(trim, "mutation") {
		add(strings.Replace(q, "mutation", "query", 1), nil)
	}
	// operation name
	if strings.HasPrefix(trim, "{") {
		add("query Renamed "+q, nil)
	} else if m := regexp.MustCompile(`^(query|mutation) (\w+)`).FindStringSubmatch(trim); m != nil && !strings.Contains(q, "query Other") {
		add(strings.Replace(q, m[1]+" "+m[2], m[1]+" Renamed", 1), func(o *gen.Op) {
			if o.OperationName == m[2] {
				o.OperationName = "Renamed"
			}
		})
	}
	// variable names
	if varNameRe.MatchString(q) {
		nv := map[string]any{}
		for k, v := range op.Variables {
			nv["w"+strings.TrimPrefix(k, "v")] = v
		}
		add(varNameRe.ReplaceAllString(q, "$$w$1"), func(o *gen.Op) { o.Variables = nv })
	}
	// optional variables omitted by one request and supplied by the other (same operation text)
	decls := varDeclRe.FindAllStringSubmatch(q, -1)
	if len(decls) > 0 {
		less, more := map[string]any{}, map[string]any{}
		changedLess, changedMore := false, false
		for k, v := range op.Variables {
			less[k], more[k] = v, v
		}
		for _, d := range decls {
			name, typ := d[1], d[2]
			if strings.HasSuffix(typ, "!") {
				continue
			}
			if _, has := op.Variables[name]; has {
				delete(less, name)
				changedLess = true
			} else if v, ok := map[string]any{"Int": float64(7), "String": "zed", "Boolean": true, "Float": 1.5, "ID": "id1", "Color": "RED"}[typ]; ok {
				more[name] = v
				changedMore = true
			}
		}
		if changedLess {
			add(q, func(o *gen.Op) { o.Variables = less })
		}
		if changedMore {
			add(q, func(o *gen.Op) { o.Variables = more })
		}
	}
	// a variable used inside a custom-scalar literal may be declared with any type: same text, other declared type
	for _, m := range inScalarLitRe.FindAllStringSubmatch(q, -1) {
		name := m[1] + m[2]
		// ... another named type, or the same named type under other list / non-null wrappers
		for _, alt := range []struct {
			from, to string
			val      any
		}{
			{"Int", "String", "zed"}, {"String", "Int", float64(7)},
			{"Int", "[Int]", []any{float64(7), float64(8)}}, {"Int", "Int!", float64(9)}, {"String", "[String!]!", []any{"zed"}}, {"String", "[[String]]", []any{[]any{"zed", nil}}},
		} {
			decl := "$" + name + ": " + alt.from
			if !regexp.MustCompile(regexp.QuoteMeta(decl) + `[,)= ]`).MatchString(q) {
				continue
			}
			nm, val, to := name, alt.val, alt.to
			nq := strings.Replace(q, decl, "$"+nm+": "+to, 1)
			if strings.HasSuffix(to, "!") || strings.HasPrefix(to, "[") {
				// a default written for the old type does not fit the new one
				nq = regexp.MustCompile(regexp.QuoteMeta("$"+nm+": "+to)+` = [^,)]+`).ReplaceAllString(nq, "$$"+nm+": "+to)
			}
			add(nq, func(o *gen.Op) {
				nv := map[string]any{}
				for k, v := range op.Variables {
					nv[k] = v
				}
				nv[nm] = val
				o.Variables = nv
			})
		}
	}
	// variable values: change
	if len(op.Variables) > 0 {
		add(q, func(o *gen.Op) {
			nv := map[string]any{}
			for k, v := range op.Variables {
				switch x := v.(type) {
				case float64:
					nv[k] = x + 1
				case string:
					nv[k] = v
				case bool:
					nv[k] = !x
				default:
					nv[k] = v
				}
			}
			o.Variables = nv
		})
	}
	// defaults removed
	if defaultRe.MatchString(q) {
		add(defaultRe.ReplaceAllString(q, "$1"), nil)
	}
	// defaults changed: same text but for the default of a variable the request leaves out
	if m := regexp.MustCompile(`(\$v\d+: (Int|String|Boolean|Float)) = ([^,)]+)`).FindStringSubmatchIndex(q); m != nil {
		other := map[string]string{"Int": "41", "String": `"other"`, "Boolean": "true", "Float": "8.25"}[q[m[4]:m[5]]]
		if cur := strings.TrimSpace(q[m[6]:m[7]]); cur == other {
			other = map[string]string{"Int": "42", "String": `"else"`, "Boolean": "false", "Float": "9.5"}[q[m[4]:m[5]]]
		}
		add(q[:m[6]]+other+q[m[7]:], nil)
	}
	// fragment type condition: same name, other type (valid only on abstract spots) / other body
	if m := fragOnRe.FindStringSubmatch(q); m != nil {
		if def := mono.Types[m[2]]; def != nil {
			for _, in := range def.Interfaces {
				if in != "Node" {
					add(strings.Replace(q, m[0], "fragment "+m[1]+" on "+in, 1), nil)
				}
			}
		}
	}
	// a named fragment spread with and without @skip / @include (the directive sits on the spread, not in the fragment)
	if m := regexp.MustCompile(`\.\.\.(F\d+)\b( @(skip|include)\(if: (true|false)\))?`).FindStringSubmatchIndex(q); m != nil {
		spread := q[m[0]:m[1]]
		bare := "..." + q[m[2]:m[3]]
		for _, d := range []string{"", " @skip(if: true)", " @include(if: false)", " @skip(if: false)"} {
			if bare+d != spread {
				add(q[:m[0]]+bare+d+q[m[1]:], nil)
			}
		}
	}
	// explicit ids
	for _, t := range opTwins(op) {
		out = append(out, t)
	}
	// multi-operation document: the other operation
	if strings.Contains(q, "query Other") && op.OperationName != "" {
		add(q, func(o *gen.Op) { o.OperationName = "Other"; o.Variables = nil })
	}
	return out
}

func (p c14) Gen(c *run.Ctx, idx int) (json.RawMessage, error) {
	_, o := p.per(c)
	uidx := idx / o
	cu, err := universe(c.Seed, "shared", uidx, sharedRootsProfile)
	if err != nil {
		return nil, err
	}
	r := rng(c.Seed, "c14/case", idx)
	cs := c14Case{U: cu.spec, Jitter: uint64(r.Int63())}
	nbase := 1 + r.Intn(3)
	for b := 0; b < nbase; b++ {
		prof := gen.DefaultOpProfile()
		prof.Depth, prof.Width = 3, 3
		prof.PMultiOp, prof.POpName, prof.PFragment, prof.PVar, prof.PVarDefault = 0.3, 0.5, 0.2, 0.4, 0.3
		prof.Pool = cu.spec.Data.Pool
		if r.Intn(4) == 0 && cu.mono.Mutation != nil {
			prof.Kind = ast.Mutation
		}
		op := genValidOp(r, cu.mono, prof)
		if op == nil {
			continue
		}
		cs.Pool = append(cs.Pool, *op)
		vs := variants(r, op, cu.mono)
		r.Shuffle(len(vs), func(i, j int) { vs[i], vs[j] = vs[j], vs[i] })
		for _, v := range vs {
			if len(cs.Pool) >= 10 {
				break
			}
			if doc, e := gqlparser.LoadQuery(cu.mono, v.Query); e == nil {
				ok := len(doc.Operations) == 1 && v.OperationName == "" || v.OperationName != "" && doc.Operations.ForName(v.OperationName) != nil
				if ok {
					cs.Pool = append(cs.Pool, v)
				}
			}
		}
	}
	if r.Intn(3) == 0 {
		// introspection through the cache: one operation text, the type name as variable with several
		// values (and as literal), alone or next to a data field
		var names []string
		for n, d := range cu.mono.Types {
			if !strings.HasPrefix(n, "__") && d.Kind != ast.Scalar {
				names = append(names, n)
			}
		}
		sort.Strings(names)
		sel := pick(r, []string{"{ name kind }", "{ name kind fields { name } }", "{ name possibleTypes { name } interfaces { name } }", "{ kind name enumValues { name } inputFields { name } }"})
		text := "query T($n: String!) { __type(name: $n) " + sel + " }"
		if r.Intn(3) == 0 {
			text = "query T($n: String!) { t: __type(name: $n) " + sel + " __schema { queryType { name } } }"
		}
		k := 2 + r.Intn(3)
		for i := 0; i < k && len(names) > 0; i++ {
			cs.Pool = append(cs.Pool, gen.Op{Query: text, Variables: map[string]any{"n": pick(r, names)}, Tags: []string{"introspection-var"}})
		}
		if len(names) > 0 {
			cs.Pool = append(cs.Pool, gen.Op{Query: "{ __type(name: \"" + pick(r, names) + "\") " + sel + " }", Tags: []string{"introspection-literal"}})
		}
		// the type name as the default of a variable the requests leave out: two texts that differ in the default only
		if len(names) >= 2 && r.Intn(2) == 0 {
			for i := 0; i < 2; i++ {
				cs.Pool = append(cs.Pool, gen.Op{Query: fmt.Sprintf("query T($n: String = %q) { __type(name: $n) %s }", names[(i*7+idx)%len(names)], sel), Tags: []string{"introspection-default"}})
			}
		}
	}
	if idx%4 == 1 {
		// one document, the named fragment spread below an abstract field (node) with different @skip / @include
		var ents []string
		for _, t := range cu.u.Types {
			if t.Kind == gen.KEntity && len(t.Fields) > 0 {
				ents = append(ents, t.Name)
			}
		}
		if len(ents) > 0 {
			tn := pick(r, ents)
			var leaves []string
			for _, f := range cu.u.Type(tn).Fields {
				req := false
				for _, a := range f.Args {
					if strings.HasSuffix(a.Type, "!") && a.Default == "" {
						req = true
					}
				}
				if tt := cu.u.Type(gen.BaseName(f.Type)); !req && (tt == nil || tt.Kind == gen.KEnum || tt.Kind == gen.KScalar) {
					leaves = append(leaves, f.Name)
				}
			}
			if len(leaves) > 0 {
				id := fmt.Sprintf("%s_%d", tn, r.Intn(2))
				for _, d := range []string{"", " @skip(if: true)", " @include(if: false)", " @skip(if: false)"} {
					q := fmt.Sprintf("query SD { node(id: %q) { id ...SF%s } }\nfragment SF on %s { %s }", id, d, tn, strings.Join(leaves, " "))
					if _, err := gqlparser.LoadQuery(cu.mono, q); err == nil {
						cs.Pool = append(cs.Pool, gen.Op{Query: q, Tags: []string{"spread-directive"}})
					}
				}
			}
		}
	}
	if len(cs.Pool) < 2 {
		return nil, nil
	}
	n := 2 + r.Intn(39)
	for i := 0; i < n; i++ {
		cs.History = append(cs.History, r.Intn(len(cs.Pool)))
	}
	switch r.Intn(3) {
	case 0:
		cs.TTLms = 0
	case 1:
		cs.TTLms = 1
		cs.PauseEvery = 2 + r.Intn(4)
	default:
		cs.TTLms = 3600000
	}
	cs.Concurrent = r.Intn(3) == 0
	return mustJSON(cs), nil
}

func (p c14) Exec(c *run.Ctx, idx int, raw json.RawMessage) []run.Result {
	var sp c14Case
	if err := json.Unmarshal(raw, &sp); err != nil {
		return []run.Result{{Verdict: "broken", Message: err.Error()}}
	}
	res := run.Result{Verdict: run.Held, Counters: map[string]int{}}
	a, err := rig.New(sp.U, rig.Config{})
	if a != nil {
		defer a.Close()
	}
	if err != nil {
		res.Verdict = run.Skip
		res.Counters["setup_failed"] = 1
		return []run.Result{res}
	}
	b, err := rig.New(sp.U, rig.Config{Planner: "cached", TTLms: sp.TTLms})
	if b != nil {
		defer b.Close()
	}
	if err != nil {
		res.Verdict = run.Skip
		return []run.Result{res}
	}
	fail := func(sym, msg string) []run.Result {
		res.Verdict, res.Symptom, res.Message = run.Violated, sym, msg
		return []run.Result{res}
	}
	// expected answers from the stateless twin
	expect := make([]*rig.GQLResponse, len(sp.Pool))
	for i := range sp.Pool {
		hr := a.Query(&sp.Pool[i])
		if hr.Panic != nil {
			return fail("plain-gateway-panic: "+errTemplate(fmt.Sprint(hr.Panic)), fmt.Sprint(hr.Panic))
		}
		g, derr := rig.DecodeSingle(hr.Body)
		if derr != nil {
			return fail("plain-gateway-malformed-response", derr.Error())
		}
		expect[i] = g
		// statelessness self-check of the oracle: a second answer must equal the first
		hr2 := a.Query(&sp.Pool[i])
		if g2, e2 := rig.DecodeSingle(hr2.Body); e2 == nil {
			if d := sameResponse(g, g2); d != nil {
				res.Verdict = run.Inconclusive
				res.Symptom = "plain-gateway-not-deterministic (C13 domain)"
				res.Message = d.String()
				return []run.Result{res}
			}
		}
	}
	mode := "sequential"
	if sp.Concurrent {
		mode = "concurrent"
	}
	tags := map[string]bool{"mode:" + mode: true, fmt.Sprintf("ttl:%d", sp.TTLms): true}
	res.Tags = sortedKeys(tags)
	res.Key = hashStr(specHashOf(sp.U), jsonStr(sp.Pool), fmt.Sprint(sp.History), fmt.Sprint(sp.TTLms), mode)
	sched.Install(sched.Options{Seed: sp.Jitter, Jitter: sp.Concurrent, Record: false})
	defer sched.Uninstall()
	type mismatch struct {
		i int
		d *rig.Diff
		p any
	}
	var mu sync.Mutex
	var bad *mismatch
	issue := func(step int) {
		pi := sp.History[step]
		hr := b.Query(&sp.Pool[pi])
		var d *rig.Diff
		var pv any
		if hr.Panic != nil {
			pv = hr.Panic
		} else if g, derr := rig.DecodeSingle(hr.Body); derr != nil {
			d = &rig.Diff{Path: "", Kind: "malformed", Got: string(hr.Body)}
		} else {
			d = sameResponse(expect[pi], g)
		}
		if d != nil || pv != nil {
			mu.Lock()
			if bad == nil {
				bad = &mismatch{step, d, pv}
			}
			mu.Unlock()
		}
	}
	if sp.Concurrent {
		var wg sync.WaitGroup
		ch := make(chan int)
		for w := 0; w < 8; w++ {
			wg.Add(1)
			go func() {
				defer wg.Done()
				for s := range ch {
					issue(s)
				}
			}()
		}
		for s := range sp.History {
			ch <- s
		}
		close(ch)
		wg.Wait()
	} else {
		for s := range sp.History {
			issue(s)
			if sp.PauseEvery > 0 && (s+1)%sp.PauseEvery == 0 {
				time.Sleep(2 * time.Millisecond)
			}
		}
	}
	plans := int(*b.PlanCnt)
	res.Counters["requests_on_cached_gateway"] = len(sp.History)
	res.Counters["inner_plan_calls"] = plans
	res.Counters["cache_hits"] = len(sp.History) - plans
	distinctInHist := map[int]bool{}
	for _, h := range sp.History {
		distinctInHist[h] = true
	}
	res.NonTrivial = len(sp.History) > plans && len(sp.History) >= 2
	if bad != nil {
		pi := sp.History[bad.i]
		var hist []string
		for _, h := range sp.History[:bad.i+1] {
			hist = append(hist, fmt.Sprint(h))
		}
		if bad.p != nil {
			return fail("cached-gateway-panic: "+errTemplate(fmt.Sprint(bad.p)), fmt.Sprintf("history %s (pool below), request #%d panicked: %v\npool: %s", strings.Join(hist, ","), bad.i, bad.p, head(jsonStr(sp.Pool), 2500)))
		}
		return fail("cached-answer-differs-from-plain: "+bad.d.Kind, fmt.Sprintf("history so far (pool indexes) %s, ttl %dms, %s; request #%d = pool[%d]: %s\nvariables: %s operationName: %q\n%s\npool: %s",
			strings.Join(hist, ","), sp.TTLms, mode, bad.i, pi, sp.Pool[pi].Query, gen.MarshalVars(sp.Pool[pi].Variables), sp.Pool[pi].OperationName, bad.d.String(), head(jsonStr(sp.Pool), 3000)))
	}
	if res.NonTrivial && idx%7 == 0 {
		var qs []string
		for _, o := range sp.Pool {
			qs = append(qs, head(strings.Join(strings.Fields(o.Query), " "), 100))
		}
		res.Sample = map[string]any{"pool": qs, "history": sp.History, "ttl_ms": sp.TTLms, "mode": mode, "cache_hits": len(sp.History) - plans}
	}
	return []run.Result{res}
}
