package props

import (
	"encoding/json"
	"fmt"
	"sort"
	"strings"

	"verif/harness/internal/facts"
	"verif/harness/internal/rig"
	"verif/harness/internal/run"

	"github.com/vektah/gqlparser/v2"
	"github.com/vektah/gqlparser/v2/ast"
)

var factsNone = facts.Options{}

// C05 — conflicting service schemas are rejected, independent of service order.
type c05 struct{}

func (c05) ID() string            { return "C05" }
func (c05) Level() string         { return "fault_enumeration" }
func (c05) RaceIsViolation() bool { return false }
func (c05) Rule() string {
	return "for each sampled mergeable base universe (k >= 2): every conflict-edit kind (one operator per kind named in the property) x every ordered pair of services carrying the two sides x EVERY permutation of the service list; " +
		"oracle: Merge under recover must return a non-nil error for conflict sets in every permutation (panic or success = violation), " +
		"and for the unedited base every permutation must be accepted with identical fact sets and identical Node-field routes; " +
		"distinct = distinct (base universe hash, edit kind, service pair, permutation); non-trivial = every case (k >= 2 by construction); the (edit kind x pair x permutation) space of each sampled base is enumerated completely"
}
func (c05) Assumptions() []string {
	return []string{"each conflict edit adds fresh type names to exactly two services, so the only conflict present is the injected one", "edited service SDLs are individually valid (checked with gqlparser.LoadSchema; otherwise the case is discarded as a generator error)"}
}
func (c05) Exhaustive(c *run.Ctx) bool { return true }

type conflictEdit struct {
	Kind string
	A, B string // SDL appended to service a / service b
	C    string // SDL appended to a third service (needs k >= 3)
	// Benign: the edited set is still mergeable by the statement's rules (every pair of declarations identical
	// or disjoint): it must be accepted in every order with the same facts
	Benign bool
	// NodeHiding: merged with the node-hiding merger (the statement holds for every merger the gateway offers)
	NodeHiding bool
}

// conflictEdits lists one operator per conflict kind of the statement.  Fresh names only.
var conflictEdits = []conflictEdit{
	{"dup-root-field-query", "extend type Query { dupRoot: String }", "extend type Query { dupRoot: String }", "", false, false},
	{"dup-root-field-mutation", "type Mutation { dupMut: String }", "type Mutation { dupMut: String }", "", false, false},
	{"dup-root-field-underscore", "extend type Query { _dupRoot: String }", "extend type Query { _dupRoot: String }", "", false, false},
	{"kind-object-vs-enum", "type Clash { a: Int }", "enum Clash { A B }", "", false, false},
	{"kind-underscore-object-vs-enum", "type _Clash { a: Int }", "enum _Clash { A B }", "", false, false},
	{"kind-object-vs-input", "type Clash { a: Int }", "input Clash { a: Int }", "", false, false},
	{"kind-object-vs-interface", "type Clash { a: Int }", "interface Clash { a: Int }", "", false, false},
	{"kind-object-vs-scalar", "type Clash { a: Int }", "scalar Clash", "", false, false},
	{"kind-object-vs-union", "type Clash { a: Int }\ntype ClashM { a: Int }", "type ClashM { a: Int }\nunion Clash = ClashM", "", false, false},
	{"kind-enum-vs-scalar", "enum Clash { A }", "scalar Clash", "", false, false},
	{"node-ness-mismatch", "type Half implements Node { id: ID! }", "type Half { id: ID! x: Int }", "", false, false},
	{"node-ness-mismatch-interface", "interface HalfI implements Node { id: ID! a: Int }\ntype HalfIM implements HalfI & Node { id: ID! a: Int }", "interface HalfI { id: ID! }", "", false, false},
	{"node-type-field-twice", "type Twice implements Node { id: ID! shared: Int }", "type Twice implements Node { id: ID! shared: Int }", "", false, false},
	{"value-type-partial-overlap", "type Part { a: Int b: Int }", "type Part { a: Int c: Int }", "", false, false},
	{"value-type-partial-overlap-with-id", "type PartId { id: ID! a: Int }", "type PartId { a: Int c: Int }", "", false, false},
	{"value-type-partial-overlap-with-id-rev", "type PartId { a: Int c: Int }", "type PartId { id: ID! a: Int }", "", false, false},
	{"value-type-subset", "type Sub { a: Int b: Int }", "type Sub { a: Int }", "", false, false},
	{"value-type-extra-id-only", "type Xid { id: ID! a: Int }", "type Xid { a: Int }", "", false, false},
	{"input-subset", "input SubIn { a: Int b: Int }", "input SubIn { a: Int }", "", false, false},
	{"input-partial-overlap", "input PartIn { a: Int b: Int }", "input PartIn { a: Int c: Int }", "", false, false},
	{"shared-id-field-different-type", "type ShId { id: ID! a: Int }", "type ShId { id: String a: Int }", "", false, false},
	{"shared-id-field-different-type-only-id", "type ShIdOnly { id: ID! }", "type ShIdOnly { id: Int }", "", false, false},
	{"shared-id-field-different-nullability", "type ShIdN { id: ID! a: Int }", "type ShIdN { id: ID a: Int }", "", false, false},
	{"shared-id-field-different-arg-set", "type ShIdA { id: ID! a: Int }", "type ShIdA { id(x: Int): ID! a: Int }", "", false, false},
	{"input-shared-id-field-different-type", "input ShIdIn { id: ID! a: Int }", "input ShIdIn { id: Int a: Int }", "", false, false},
	{"shared-field-different-list-default", "type ShLd { a(x: [String!] = [\"name\"]): Int }", "type ShLd { a(x: [String!] = [\"createdAt\"]): Int }", "", false, false},
	{"shared-input-field-different-list-default", "input ShLdIn { s: [String!] = [\"a\"] }", "input ShLdIn { s: [String!] = [\"b\"] }", "", false, false},
	{"shared-input-field-different-object-default", "input PtD { x: Int }\ninput ShOdIn { p: PtD = {x: 1} }", "input PtD { x: Int }\ninput ShOdIn { p: PtD = {x: 2} }", "", false, false},
	{"shared-field-different-object-default", "input PtE { x: Int }\ntype ShOd { a(p: PtE = {x: 1}): Int }", "input PtE { x: Int }\ntype ShOd { a(p: PtE = {x: 2}): Int }", "", false, false},
	{Kind: "benign-identical-plain-type", A: "type Same { a: Int b: String }", B: "type Same { a: Int b: String }", Benign: true},
	{Kind: "benign-disjoint-plain-type", A: "type Dj { a: Int }", B: "type Dj { b: String }", Benign: true},
	{Kind: "benign-disjoint-identical-triple", A: "type Tri { x: Int }", B: "type Tri { y: Int }", C: "type Tri { x: Int }", Benign: true},
	{Kind: "benign-identical-disjoint-triple-input", A: "input TriIn { x: Int }", B: "input TriIn { x: Int }", C: "input TriIn { y: Int }", Benign: true},
	{Kind: "root-node-relay-vs-plain", A: "", B: "REPLACE-RELAY-NODE-BY-PLAIN-FIELD"},
	{Kind: "root-node-relay-vs-plain(node-hiding merger)", A: "", B: "REPLACE-RELAY-NODE-BY-PLAIN-FIELD", NodeHiding: true},
	{Kind: "root-node-relay-vs-other-signature(node-hiding merger)", A: "", B: "REPLACE-RELAY-NODE-BY-OTHER-SIGNATURE", NodeHiding: true},
	{Kind: "root-node-relay-vs-other-signature", A: "", B: "REPLACE-RELAY-NODE-BY-OTHER-SIGNATURE"},
	{Kind: "dup-root-field-query(node-hiding merger)", A: "extend type Query { dupRootH: String }", B: "extend type Query { dupRootH: String }", NodeHiding: true},
	// two services agree, a third one conflicts with what the two became
	{Kind: "kind-triple-object-object-enum", A: "type Clash3 { a: Int }", B: "type Clash3 { a: Int }", C: "enum Clash3 { A B }"},
	{Kind: "node-ness-triple-plain-plain-node", A: "type Half3 { id: ID! x: Int }", B: "type Half3 { id: ID! x: Int }", C: "type Half3 implements Node { id: ID! }"},
	{Kind: "shared-field-triple-different-type", A: "type Sh3 { a: Int }", B: "type Sh3 { a: Int }", C: "type Sh3 { a: String }"},
	{"shared-field-different-type", "type Sh { a: Int }", "type Sh { a: String }", "", false, false},
	{"shared-field-different-nullability", "type Sh { a: Int }", "type Sh { a: Int! }", "", false, false},
	{"shared-field-different-list", "type Sh { a: [Int] }", "type Sh { a: Int }", "", false, false},
	{"shared-field-different-arg-type", "type Sh { a(x: Int): Int }", "type Sh { a(x: String): Int }", "", false, false},
	{"shared-field-different-arg-set", "type Sh { a: Int }", "type Sh { a(x: Int): Int }", "", false, false},
	{"shared-field-different-arg-default", "type Sh { a(x: Int = 1): Int }", "type Sh { a(x: Int = 2): Int }", "", false, false},
	{"shared-input-field-different-type", "input ShIn { a: Int }", "input ShIn { a: String }", "", false, false},
	{"union-different-members", "type Ua { a: Int }\ntype Ub { a: Int }\nunion Un = Ua | Ub", "type Ua { a: Int }\ntype Ub { a: Int }\nunion Un = Ua", "", false, false},
	{"interface-field-different-type", "interface If { a: Int }\ntype IfM implements If { a: Int }", "interface If { a: String }\ntype IfM2 implements If { a: String }", "", false, false},
}

// pairs per base: all ordered pairs (a,b), a != b, k <= 4 -> <= 12 ; perms <= 24
const c05PairSlots = 12
const c05PermSlots = 24

func c05Bases(tier string) int {
	if tier == "thorough" {
		return 16
	}
	return 6
}

func (p c05) slots() int { return (len(conflictEdits)*c05PairSlots + 1) * c05PermSlots }

func (p c05) NumCases(c *run.Ctx) int { return c05Bases(c.Tier) * p.slots() }

func (p c05) BatchSize(c *run.Ctx) int { return 400 }

// base universes for C05 need k >= 2: take universes from the stream and skip k=1.
func c05Base(c *run.Ctx, n int) (*cachedUni, int, error) {
	found := -1
	for i := 0; i < 100000; i++ {
		cu, err := universe(c.Seed, "merge5", i, mergeProfile)
		if err != nil {
			return nil, 0, err
		}
		if len(cu.spec.Services) >= 2 {
			found++
			if found == n {
				return cu, i, nil
			}
		}
	}
	return nil, 0, fmt.Errorf("no base universe")
}

func hasNodeIface(sdl string) bool { return strings.Contains(sdl, "interface Node") }

func applyEdit(spec rig.UniverseSpec, e conflictEdit, a, b int) (rig.UniverseSpec, bool) {
	out := spec
	out.Services = append([]rig.ServiceSpec{}, spec.Services...)
	fix := func(sdl, add string) string {
		if strings.Contains(add, "implements Node") && !hasNodeIface(sdl) {
			add = "interface Node { id: ID! }\n" + add
		}
		if strings.HasPrefix(add, "type Mutation") && strings.Contains(sdl, "type Mutation") {
			add = "extend " + add
		}
		return sdl + "\n" + add + "\n"
	}
	touched := []int{a, b}
	if e.A != "" {
		out.Services[a].SDL = fix(out.Services[a].SDL, e.A)
	}
	if strings.HasPrefix(e.B, "REPLACE-RELAY-NODE-BY-") {
		// service a keeps the Relay entry point node(id: ID!): Node, service b declares another root field of that name
		const relay = "  node(id: ID!): Node\n"
		if !strings.Contains(out.Services[a].SDL, relay) || !strings.Contains(out.Services[b].SDL, relay) {
			return out, false
		}
		repl := "  node: String\n"
		if e.B == "REPLACE-RELAY-NODE-BY-OTHER-SIGNATURE" {
			repl = "  node(name: String!): String\n"
		}
		out.Services[b].SDL = strings.Replace(out.Services[b].SDL, relay, repl, 1)
	} else {
		out.Services[b].SDL = fix(out.Services[b].SDL, e.B)
	}
	if e.C != "" {
		c := -1
		for i := range out.Services {
			if i != a && i != b {
				c = i
				break
			}
		}
		if c < 0 {
			return out, false
		}
		out.Services[c].SDL = fix(out.Services[c].SDL, e.C)
		touched = append(touched, c)
	}
	for _, s := range touched {
		if _, err := gqlparser.LoadSchema(&ast.Source{Name: "x", Input: out.Services[s].SDL}); err != nil {
			return out, false
		}
	}
	return out, true
}

func (p c05) Gen(c *run.Ctx, idx int) (json.RawMessage, error) {
	slots := p.slots()
	bi := idx / slots
	rest := idx % slots
	pi := rest % c05PermSlots
	es := rest / c05PermSlots // 0 = base, else 1 + edit*pairSlots + pair
	cu, uidx, err := c05Base(c, bi)
	if err != nil {
		return nil, err
	}
	k := len(cu.spec.Services)
	perms := permutations(k)
	if pi >= len(perms) {
		return nil, nil
	}
	mc := mergeCase{U: cu.spec, Perm: perms[pi], UIdx: uidx}
	if es > 0 {
		ei := (es - 1) / c05PairSlots
		pr := (es - 1) % c05PairSlots
		var pairs [][2]int
		for a := 0; a < k; a++ {
			for b := 0; b < k; b++ {
				if a != b {
					pairs = append(pairs, [2]int{a, b})
				}
			}
		}
		if pr >= len(pairs) {
			return nil, nil
		}
		e := conflictEdits[ei]
		spec, ok := applyEdit(cu.spec, e, pairs[pr][0], pairs[pr][1])
		if !ok {
			if e.C != "" || strings.HasPrefix(e.B, "REPLACE-RELAY-NODE-BY-") {
				return nil, nil // not applicable to this base (fewer than 3 services / a service without node)
			}
			return nil, fmt.Errorf("conflict edit %s produced an invalid service SDL", e.Kind)
		}
		mc.U = spec
		mc.Edit = e.Kind
		mc.Benign = e.Benign
		mc.Sanitize = e.NodeHiding
		mc.EditAt = []int{pairs[pr][0], pairs[pr][1]}
	}
	return mustJSON(mc), nil
}

func nodeRoutes(mo mergeOutcome, spec rig.UniverseSpec) []string {
	var out []string
	for tn, d := range mo.res.Schema.Types {
		if d.Kind != ast.Object || !implementsNode(d) {
			continue
		}
		for _, f := range d.Fields {
			if f.Name == "id" || strings.HasPrefix(f.Name, "__") {
				continue
			}
			u, _ := mo.res.TypeURLMap.Get(tn, f.Name)
			out = append(out, tn+"."+f.Name+"->"+u)
		}
	}
	sort.Strings(out)
	return out
}

func (p c05) Exec(c *run.Ctx, idx int, raw json.RawMessage) []run.Result {
	var sp mergeCase
	if err := json.Unmarshal(raw, &sp); err != nil {
		return []run.Result{{Verdict: "broken", Message: err.Error()}}
	}
	res := run.Result{Verdict: run.Held, Counters: map[string]int{}, NonTrivial: true}
	res.Key = hashStr(specHashOf(sp.U), sp.Edit, fmt.Sprint(sp.EditAt), fmt.Sprint(sp.Perm))
	tags := map[string]bool{fmt.Sprintf("k=%d", len(sp.U.Services)): true}
	if sp.Edit != "" {
		tags["edit:"+sp.Edit] = true
		// position facts: where the two conflicting services sit in the list
		posA, posB := -1, -1
		for pos, i := range sp.Perm {
			if i == sp.EditAt[0] {
				posA = pos
			}
			if i == sp.EditAt[1] {
				posB = pos
			}
		}
		if posA > posB {
			posA, posB = posB, posA
		}
		if posB-posA > 1 {
			tags["conflict-sides-not-adjacent"] = true
		}
	} else {
		tags["base"] = true
	}
	res.Tags = sortedKeys(tags)
	mo := doMerge(sp.U.Services, sp.Perm, sp.Sanitize)
	fail := func(sym, msg string) []run.Result {
		res.Verdict, res.Symptom, res.Message = run.Violated, sym, msg
		return []run.Result{res}
	}
	if mo.err != nil && strings.HasPrefix(mo.err.Error(), "HARNESS") {
		return []run.Result{{Verdict: "broken", Message: mo.err.Error()}}
	}
	if mo.panic != nil {
		return fail("merge-panic: "+errTemplate(fmt.Sprint(mo.panic)), fmt.Sprintf("%v\n%s", mo.panic, mo.stack))
	}
	if sp.Edit != "" && !sp.Benign {
		res.Counters["conflict_sets"] = 1
		if mo.err == nil {
			// show which side was silently preferred
			var pref []string
			for _, tn := range []string{"Clash", "Half", "Twice", "Part", "PartIn", "Sh", "ShIn", "Un", "If", "PartId", "Sub", "Xid", "SubIn", "Clash3", "Half3", "Sh3"} {
				if d := mo.res.Schema.Types[tn]; d != nil {
					var fs []string
					for _, f := range d.Fields {
						a := ""
						for _, ad := range f.Arguments {
							a += ad.Name + ":" + ad.Type.String()
							if ad.DefaultValue != nil {
								a += "=" + ad.DefaultValue.String()
							}
						}
						fs = append(fs, fmt.Sprintf("%s(%s):%s", f.Name, a, f.Type.String()))
					}
					pref = append(pref, fmt.Sprintf("%s %s {%s} members=%v", d.Kind, tn, strings.Join(fs, " "), d.Types))
				}
			}
			return fail("conflict-accepted: "+sp.Edit, fmt.Sprintf("services %v carry the conflict, order %v was merged without error; result has: %s", sp.EditAt, sp.Perm, strings.Join(pref, "; ")))
		}
		res.Counters["conflict_rejected"] = 1
		res.Sample = map[string]any{"edit": sp.Edit, "at": sp.EditAt, "perm": sp.Perm, "error": head(mo.err.Error(), 200)}
		return []run.Result{res}
	}
	// base: must be accepted; facts and node routes equal to those of the identity order
	if mo.err != nil {
		return fail("mergeable-set-rejected: "+errTemplate(mo.err.Error()), fmt.Sprintf("order %v: %v", sp.Perm, mo.err))
	}
	id := make([]int, len(sp.Perm))
	for i := range id {
		id[i] = i
	}
	ref := doMerge(sp.U.Services, id, false)
	if ref.err != nil || ref.panic != nil {
		res.Verdict = run.Skip
		res.Counters["identity_order_rejected"] = 1
		return []run.Result{res}
	}
	a, b := facts.Diff(facts.Of(ref.res.Schema, facts.All()), facts.Of(mo.res.Schema, facts.All()))
	if len(a)+len(b) > 0 {
		return fail("order-dependent-facts: "+factKinds(append(a, b...)), fmt.Sprintf("order %v vs identity: only-identity=%s only-this=%s", sp.Perm, truncList(a, 8), truncList(b, 8)))
	}
	ra, rb := nodeRoutes(ref, sp.U), nodeRoutes(mo, sp.U)
	if strings.Join(ra, ";") != strings.Join(rb, ";") {
		return fail("order-dependent-node-routes", fmt.Sprintf("order %v: %v vs identity %v", sp.Perm, rb, ra))
	}
	res.Counters["base_orders_compared"] = 1
	return []run.Result{res}
}
