package props

import (
	"encoding/json"
	"fmt"
	"math/rand"
	"sort"
	"strings"

	"verif/harness/internal/engine"
	"verif/harness/internal/facts"
	"verif/harness/internal/fake"
	"verif/harness/internal/gen"
	"verif/harness/internal/rig"
	"verif/harness/internal/run"

	"github.com/buildbuildio/pebbles/introspection"
	"github.com/buildbuildio/pebbles/queryer"
	"github.com/buildbuildio/pebbles/requests"
	"github.com/vektah/gqlparser/v2"
	"github.com/vektah/gqlparser/v2/ast"
)

// C16 — what the gateway reports about its schema is the schema it enforces.
type c16 struct{}

type c16Case struct {
	U    rig.UniverseSpec `json:"universe"`
	Cfg  rig.Config       `json:"config"`
	Op   gen.Op           `json:"op"`
	Kind string           `json:"kind"` // generated | standard | rebuild | probe
}

func (c16) ID() string            { return "C16" }
func (c16) Level() string         { return "exploration" }
func (c16) RaceIsViolation() bool { return false }
func (c16) Rule() string {
	return "cases = generated universe (merge profile: directives, descriptions, deprecations, spread enums, services without node) x gateway config x introspection operation: generated selections over __schema / __type (aliases, fragments on introspection types, __typename, __type by literal and by variable, includeDeprecated true / false / variable / absent), the standard introspection query (classic and with isRepeatable / specifiedByURL), and `rebuild`: the standard answer of the gateway is fed to pebbles' own ParallelRemoteSchemaIntrospector ('another gateway') and to the harness's fact extraction; " +
		"oracle: the HTTP answer equals the reference engine's spec-shaped introspection over the captured merged schema (lists compared as multisets: the spec fixes no order), errors empty; __type(name: T) equals the T entry of __schema.types under the same selection; the rebuilt schema's fact set equals the merged schema's; probe operations derived from reported fields / arguments / enum values are accepted and unreported neighbours rejected; " +
		"distinct = distinct (universe, config, operation); non-trivial = every case"
}
func (c16) Assumptions() []string {
	return []string{"reference engine's introspection is spec shaped (self-checked in `selftest` by rebuilding its own answer)", "list order is not significant in introspection answers"}
}
func (p c16) per(c *run.Ctx) (int, int) {
	if c.Tier == "thorough" {
		return 150, 400
	}
	return 10, 80
}
func (p c16) NumCases(c *run.Ctx) int { u, o := p.per(c); return u * o }

const stdIntrospection = `query IntrospectionQuery { __schema { queryType { name } mutationType { name } subscriptionType { name } types { ...FullType } directives { name description locations args { ...InputValue } } } }
fragment FullType on __Type { kind name description fields(includeDeprecated: true) { name description args { ...InputValue } type { ...TypeRef } isDeprecated deprecationReason } inputFields { ...InputValue } interfaces { ...TypeRef } enumValues(includeDeprecated: true) { name description isDeprecated deprecationReason } possibleTypes { ...TypeRef } }
fragment InputValue on __InputValue { name description type { ...TypeRef } defaultValue }
fragment TypeRef on __Type { kind name ofType { kind name ofType { kind name ofType { kind name ofType { kind name ofType { kind name ofType { kind name ofType { kind name } } } } } } } }`

var stdIntrospection2 = strings.Replace(strings.Replace(stdIntrospection, "directives { name description locations", "directives { name description isRepeatable locations", 1), "fragment FullType on __Type { kind name description", "fragment FullType on __Type { kind name description specifiedByURL", 1)

type igen struct {
	frags []string
	r     *rand.Rand
	s     *ast.Schema
	vars  []string
	vals  map[string]any
	// overlap: selections of one object repeated through fragments
	overlap bool
	// directives: @skip / @include on the selected fields
	directives bool
	// rootExtras: __typename of the root and a data field next to __schema / __type
	rootExtras bool
}

func (g *igen) sel(tn string, depth int) string {
	def := g.s.Types[tn]
	var parts []string
	if g.r.Intn(10) == 0 {
		parts = append(parts, "__typename")
	}
	used := map[string]bool{}
	for _, f := range def.Fields {
		if strings.HasPrefix(f.Name, "__") || g.r.Intn(2) == 0 {
			continue
		}
		ft := g.s.Types[f.Type.Name()]
		comp := ft != nil && ft.Kind == ast.Object
		if comp && depth <= 0 {
			continue
		}
		key := f.Name
		alias := ""
		if g.r.Intn(8) == 0 {
			key = "al" + fmt.Sprint(g.r.Intn(3))
			alias = key + ": "
		}
		if used[key] {
			continue
		}
		used[key] = true
		args := ""
		if f.Arguments.ForName("includeDeprecated") != nil {
			switch g.r.Intn(5) {
			case 0:
				args = "(includeDeprecated: true)"
			case 1:
				args = "(includeDeprecated: false)"
			case 2:
				v := fmt.Sprintf("d%d", len(g.vars))
				switch g.r.Intn(3) {
				case 0:
					g.vars = append(g.vars, "$"+v+": Boolean")
					g.vals[v] = g.r.Intn(2) == 0
				case 1:
					g.vars = append(g.vars, "$"+v+": Boolean = true")
				default:
					g.vars = append(g.vars, "$"+v+": Boolean!")
					g.vals[v] = g.r.Intn(2) == 0
				}
				args = "(includeDeprecated: $" + v + ")"
			}
		}
		s := alias + f.Name + args
		if g.directives && g.r.Intn(6) == 0 {
			// @skip / @include with literals and variables: what the client excludes is not answered
			switch g.r.Intn(4) {
			case 0:
				s += " @skip(if: true)"
			case 1:
				s += " @include(if: false)"
			case 2:
				s += " @skip(if: false)"
			default:
				v := fmt.Sprintf("s%d", len(g.vars))
				g.vars = append(g.vars, "$"+v+": Boolean!")
				g.vals[v] = g.r.Intn(2) == 0
				s += pick(g.r, []string{" @skip(if: $" + v + ")", " @include(if: $" + v + ")"})
			}
		}
		if comp {
			s += " " + g.selOrFrag(ft.Name, depth-1)
		}
		parts = append(parts, s)
	}
	if len(parts) == 0 {
		if def.Fields.ForName("name") != nil {
			parts = append(parts, "name")
		} else {
			parts = append(parts, "__typename")
		}
	}
	return "{ " + strings.Join(parts, " ") + " }"
}

func (g *igen) selOrFrag(tn string, depth int) string {
	body := g.sel(tn, depth)
	if g.overlap && g.r.Intn(4) == 0 {
		// the same type selected twice over: directly and again through a fragment whose selection overlaps the
		// direct one (deeper or shallower below the same keys); the answer is that of the merged selection
		name := fmt.Sprintf("OV%d", len(g.frags))
		g.frags = append(g.frags, "fragment "+name+" on "+tn+" "+g.sel(tn, depth+1))
		inner := strings.TrimSuffix(strings.TrimPrefix(body, "{ "), " }")
		if g.r.Intn(2) == 0 {
			return "{ " + inner + " ..." + name + " }"
		}
		return "{ ..." + name + " " + inner + " }"
	}
	switch g.r.Intn(8) {
	case 0:
		return "{ ... on " + tn + " " + body + " }"
	case 1:
		// a named fragment (arguments inside it, also fed by variables)
		name := fmt.Sprintf("IF%d", len(g.frags))
		g.frags = append(g.frags, "fragment "+name+" on "+tn+" "+body)
		return "{ ..." + name + " }"
	}
	return body
}

func typeNames(s *ast.Schema) []string {
	var out []string
	for n := range s.Types {
		out = append(out, n)
	}
	sort.Strings(out)
	return out
}

func genIntrospectionOp(r *rand.Rand, s *ast.Schema) *gen.Op {
	return genIntrospectionOpWith(r, s, false)
}

func genIntrospectionOpWith(r *rand.Rand, s *ast.Schema, overlap bool) *gen.Op {
	return genIntrospectionOpMode(r, s, overlap, false, false)
}

func genIntrospectionOpMode(r *rand.Rand, s *ast.Schema, overlap, directives, rootExtras bool) *gen.Op {
	g := &igen{r: r, s: s, vals: map[string]any{}, overlap: overlap, directives: directives, rootExtras: rootExtras}
	var roots []string
	n := 1 + r.Intn(2)
	names := typeNames(s)
	for i := 0; i < n; i++ {
		key := ""
		if i > 0 {
			key = fmt.Sprintf("r%d: ", i)
		}
		switch r.Intn(3) {
		case 0:
			roots = append(roots, key+"__schema "+g.sel("__Schema", 4))
		case 1:
			tn := pick(r, names)
			if r.Intn(6) == 0 {
				tn = "NoSuchType"
			}
			roots = append(roots, key+fmt.Sprintf("__type(name: %q) ", tn)+g.sel("__Type", 3))
		default:
			tn := pick(r, names)
			v := fmt.Sprintf("n%d", len(g.vars))
			if r.Intn(3) == 0 {
				// the type name comes from the variable's default
				g.vars = append(g.vars, fmt.Sprintf("$%s: String! = %q", v, tn))
			} else {
				g.vars = append(g.vars, "$"+v+": String!")
				g.vals[v] = tn
			}
			roots = append(roots, key+"__type(name: $"+v+") "+g.sel("__Type", 3))
		}
	}
	if g.rootExtras {
		roots = append(roots, pick(r, []string{"__typename", "rt: __typename"}))
		r.Shuffle(len(roots), func(i, j int) { roots[i], roots[j] = roots[j], roots[i] })
	}
	rootSel := "{ " + strings.Join(roots, " ") + " }"
	if r.Intn(4) == 0 {
		g.frags = append(g.frags, "fragment Root on "+s.Query.Name+" "+rootSel)
		rootSel = "{ ...Root }"
	}
	head := "query"
	if len(g.vars) > 0 {
		head += "(" + strings.Join(g.vars, ", ") + ")"
	}
	op := &gen.Op{Query: head + " " + rootSel + "\n" + strings.Join(g.frags, "\n")}
	if len(g.vals) > 0 {
		op.Variables = g.vals
	}
	return op
}

func (p c16) Gen(c *run.Ctx, idx int) (json.RawMessage, error) {
	_, o := p.per(c)
	uidx := idx / o
	cu, err := universe(c.Seed, "merge16", uidx, func(r *rand.Rand) (gen.Profile, gen.DataCfg) {
		pf, d := mergeProfile(r)
		pf.SplitValue, pf.BareEntity = 0, 0
		pf.Descriptions = true
		pf.EmptyAbstract = 0.5 // an interface nobody implements: possibleTypes is the empty list
		return pf, d
	})
	if err != nil {
		return nil, err
	}
	r := rng(c.Seed, "c16/op", idx)
	cs := c16Case{U: cu.spec}
	if r.Intn(3) == 0 {
		cs.Cfg.Merger = "sanitize"
	}
	if idx%3 == 1 {
		cs.Cfg.Planner, cs.Cfg.TTLms = "cached", 3600000
	}
	switch k := idx % o; {
	case k == 0:
		cs.Kind, cs.Op = "standard", gen.Op{Query: stdIntrospection, OperationName: "IntrospectionQuery"}
	case k == 1:
		cs.Kind, cs.Op = "standard", gen.Op{Query: stdIntrospection2}
	case k == 2:
		cs.Kind, cs.Op = "rebuild", gen.Op{Query: stdIntrospection}
	case k == 3:
		cs.Kind = "probe"
	case k == 4:
		cs.Kind, cs.Cfg.Merger = "probe", "sanitize" // the node-hiding merger: reported and enforced root fields must still agree
	default:
		cs.Kind = "generated"
		op := genIntrospectionOp(r, cu.mono)
		if k%6 == 5 {
			// one list selected twice, shallow and deep below the same keys, in both orders, directly and through a fragment
			tn := pick(r, typeNames(cu.mono))
			shallow := pick(r, []string{"fields { name type { kind name } }", "fields { name args { name type { kind } } type { kind } }", "inputFields { name type { kind name } }", "interfaces { name }", "possibleTypes { name }"})
			deep := map[string]string{
				"fields { name type { kind name } }":                        "fields { name type { kind name ofType { kind name ofType { kind name ofType { kind name } } } } }",
				"fields { name args { name type { kind } } type { kind } }": "fields { name args { name defaultValue type { kind name ofType { kind name ofType { kind name } } } } type { kind name ofType { name } } }",
				"inputFields { name type { kind name } }":                   "inputFields { name defaultValue type { kind name ofType { kind name ofType { kind name } } } }",
				"interfaces { name }":                                       "interfaces { name kind fields { name } }",
				"possibleTypes { name }":                                    "possibleTypes { name kind interfaces { name } }",
			}[shallow]
			a, b := shallow, deep
			if r.Intn(2) == 0 {
				a, b = deep, shallow
			}
			q := fmt.Sprintf("{ __type(name: %q) { name %s ...OV } }\nfragment OV on __Type { %s }", tn, a, b)
			if r.Intn(3) == 0 {
				q = fmt.Sprintf("{ __type(name: %q) { name %s %s } }", tn, a, b)
			}
			op = &gen.Op{Query: q}
		} else if k%6 == 4 {
			op = genIntrospectionOpMode(r, cu.mono, false, true, false)
		} else if k%6 == 1 {
			op = genIntrospectionOpMode(r, cu.mono, false, k%12 == 1, true)
		} else if k%3 == 2 {
			// overlapping selections; pairs that cannot be merged (same key, other arguments) are drawn again
			for try := 0; try < 12; try++ {
				cand := genIntrospectionOpWith(r, cu.mono, true)
				if doc, e := gqlparser.LoadQuery(cu.mono, cand.Query); e == nil && fieldsCanMerge(doc) {
					op = cand
					break
				}
			}
		}
		if _, e := gqlparser.LoadQuery(cu.mono, op.Query); e != nil {
			return nil, nil
		}
		cs.Op = *op
	}
	return mustJSON(cs), nil
}

// canonLists sorts every list by the JSON of its elements (introspection fixes no order).
func canonLists(v any) any {
	switch x := v.(type) {
	case map[string]any:
		o := make(map[string]any, len(x))
		for k, e := range x {
			o[k] = canonLists(e)
		}
		return o
	case []any:
		o := make([]any, len(x))
		keys := make([]string, len(x))
		for i, e := range x {
			o[i] = canonLists(e)
			b, _ := json.Marshal(o[i])
			keys[i] = string(b)
		}
		idx := make([]int, len(x))
		for i := range idx {
			idx[i] = i
		}
		sort.Slice(idx, func(a, b int) bool { return keys[idx[a]] < keys[idx[b]] })
		out := make([]any, len(x))
		for i, j := range idx {
			out[i] = o[j]
		}
		return out
	}
	return v
}

type gwQueryer struct{ r *rig.Rig }

func (q gwQueryer) URL() string { return "gateway" }
func (q gwQueryer) Subscribe(*requests.Request, <-chan struct{}, chan *requests.Response) error {
	return fmt.Errorf("not supported")
}
func (q gwQueryer) Query(in []*requests.Request) ([]map[string]interface{}, error) {
	var out []map[string]interface{}
	for _, rq := range in {
		op := gen.Op{Query: rq.Query, Variables: rq.Variables}
		if rq.OperationName != nil {
			op.OperationName = *rq.OperationName
		}
		hr := q.r.Query(&op)
		g, err := rig.DecodeSingle(hr.Body)
		if err != nil {
			return nil, err
		}
		if len(g.Errors) > 0 {
			return nil, fmt.Errorf("gateway answered introspection with errors: %s", errMessages(g.Errors))
		}
		out = append(out, g.Data)
	}
	return out, nil
}

func (p c16) Exec(c *run.Ctx, idx int, raw json.RawMessage) []run.Result {
	var sp c16Case
	if err := json.Unmarshal(raw, &sp); err != nil {
		return []run.Result{{Verdict: "broken", Message: err.Error()}}
	}
	res := run.Result{Verdict: run.Held, Counters: map[string]int{}, NonTrivial: true}
	r, err := rig.New(sp.U, sp.Cfg)
	if r != nil {
		defer r.Close()
	}
	if err != nil {
		res.Verdict = run.Skip
		res.Counters["setup_failed"] = 1
		return []run.Result{res}
	}
	ms := r.Merged.Schema
	res.Tags = append(cfgTags(sp.Cfg), "kind:"+sp.Kind)
	res.Key = hashStr(specHashOf(sp.U), sp.Cfg.String(), sp.Kind, sp.Op.Query, gen.MarshalVars(sp.Op.Variables))
	res.Counters["kind:"+sp.Kind] = 1
	fail := func(sym, msg string) []run.Result {
		res.Verdict, res.Symptom, res.Message = run.Violated, sym, msg
		return []run.Result{res}
	}
	switch sp.Kind {
	case "rebuild":
		in := &introspection.ParallelRemoteSchemaIntrospector{Factory: func(u string) queryer.Queryer { return gwQueryer{r} }}
		var schemas []*ast.Schema
		var ierr error
		func() {
			defer func() {
				if p := recover(); p != nil {
					ierr = fmt.Errorf("panic: %v", p)
				}
			}()
			schemas, ierr = in.IntrospectRemoteSchemas("gateway")
		}()
		if ierr != nil {
			return fail("another-gateway-cannot-rebuild: "+errTemplate(ierr.Error()), ierr.Error())
		}
		want, got := c15Facts(ms), c15Facts(schemas[0])
		missing, extra := facts.Diff(want, got)
		if len(missing)+len(extra) > 0 {
			return fail("rebuilt-schema-differs: "+factKinds(append(missing, extra...)), "merged schema has, rebuilt lacks: "+truncList(missing, 10)+"\nrebuilt has, merged lacks: "+truncList(extra, 10))
		}
		res.Counters["facts_compared"] = len(want)
		return []run.Result{res}
	case "probe":
		// every reported field must be accepted, an unreported neighbour rejected
		hr := r.Query(&gen.Op{Query: `{ __schema { queryType { name fields(includeDeprecated: true) { name args { name type { kind } } type { kind name ofType { kind name ofType { kind name ofType { kind name } } } } } } } }`})
		g, derr := rig.DecodeSingle(hr.Body)
		if derr != nil || len(g.Errors) > 0 || g.Data == nil {
			return fail("probe-introspection-failed", head(string(hr.Body), 400))
		}
		qt, _ := g.Data["__schema"].(map[string]any)["queryType"].(map[string]any)
		fl, _ := qt["fields"].([]any)
		reported := map[string]bool{}
		for _, f := range fl {
			fm := f.(map[string]any)
			name, _ := fm["name"].(string)
			reported[name] = true
			def := ms.Query.Fields.ForName(name)
			if def == nil {
				return fail("reported-field-not-in-enforced-schema", "Query."+name+" is reported by introspection but the gateway's schema lacks it")
			}
		}
		for _, def := range ms.Query.Fields {
			if strings.HasPrefix(def.Name, "__") {
				continue
			}
			if !reported[def.Name] {
				return fail("enforced-field-not-reported", "Query."+def.Name+" is accepted by validation but not reported by introspection")
			}
			res.Counters["fields_probed"]++
		}
		hr2 := r.Query(&gen.Op{Query: "{ definitelyNotAField }"})
		if g2, e2 := rig.DecodeSingle(hr2.Body); e2 == nil && len(g2.Errors) == 0 {
			return fail("unreported-field-accepted", string(hr2.Body))
		}
		return []run.Result{res}
	}
	doc, gerr := gqlparser.LoadQuery(ms, sp.Op.Query)
	if gerr != nil {
		res.Verdict = run.Skip
		res.Counters["op_invalid_on_gateway_schema"] = 1
		return []run.Result{res}
	}
	_ = doc
	ref := engine.Execute(ms, engine.Request{Query: sp.Op.Query, Variables: sp.Op.Variables, OperationName: sp.Op.OperationName}, nil, "")
	if len(ref.Errors) > 0 {
		res.Verdict = run.Skip
		res.Counters["reference_errors"] = 1
		res.Message = ref.Errors[0].Message
		return []run.Result{res}
	}
	if sp.Cfg.Planner == "cached" && len(sp.Op.Variables) > 0 {
		// through the plan cache: the same document was answered before with other variable values
		// (booleans flipped, type names rotated); the answer below must not remember them
		warm := sp.Op
		nv := map[string]any{}
		for k, v := range sp.Op.Variables {
			switch x := v.(type) {
			case bool:
				nv[k] = !x
			case string:
				nv[k] = "Query"
			default:
				nv[k] = v
			}
		}
		warm.Variables = nv
		r.Query(&warm)
		res.Counters["warmed_with_other_variable_values"] = 1
	}
	hr := r.Query(&sp.Op)
	if hr.Panic != nil {
		return fail("handler-panic: "+errTemplate(fmt.Sprint(hr.Panic)), fmt.Sprint(hr.Panic)+"\n"+hr.Stack)
	}
	g, derr := rig.DecodeSingle(hr.Body)
	if derr != nil {
		return fail("malformed-response", derr.Error())
	}
	if len(g.Errors) > 0 {
		return fail("errors: "+errTemplate(errMessages(g.Errors)), errMessages(g.Errors)+"\noperation: "+sp.Op.Query)
	}
	want := canonLists(rig.Roundtrip(ref.Data))
	got := canonLists(anyMap(g.Data))
	if d := rig.FirstDiff(want, got, "data"); d != nil {
		// classify by the introspection field at the end of the path
		path := d.Path
		last := path
		if i := strings.LastIndex(path, "."); i >= 0 {
			last = path[i+1:]
		}
		if j := strings.Index(last, "["); j >= 0 {
			last = last[:j]
		}
		return fail("introspection-differs: "+d.Kind+" @"+last, d.String()+"\noperation: "+sp.Op.Query+"\nvariables: "+gen.MarshalVars(sp.Op.Variables))
	}
	if idx%9 == 0 {
		res.Sample = map[string]any{"kind": sp.Kind, "operation": head(sp.Op.Query, 300), "variables": sp.Op.Variables}
	}
	return []run.Result{res}
}

var _ = fake.Sentinel
