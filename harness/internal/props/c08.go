package props

import (
	"encoding/json"
	"fmt"
	"math/rand"
	"regexp"
	"sort"
	"strings"
	"sync"
	"time"

	"verif/harness/internal/fake"
	"verif/harness/internal/gen"
	"verif/harness/internal/rig"
	"verif/harness/internal/run"
	"verif/harness/internal/sched"

	"github.com/vektah/gqlparser/v2/ast"
)

// C08 — batched requests are answered in order and independently.
type c08 struct{}

type c08Case struct {
	U      rig.UniverseSpec `json:"universe"`
	Ops    []gen.Op         `json:"ops"`
	Gated  []bool           `json:"gated"`
	Order  []int            `json:"release_order"`
	Poison string           `json:"poison_root_field,omitempty"`
	Jitter uint64           `json:"jitter_seed"`
	Cfg    rig.Config       `json:"config"`
}

func (c08) ID() string            { return "C08" }
func (c08) Level() string         { return "exploration" }
func (c08) RaceIsViolation() bool { return true }
func (c08) Rule() string {
	return "cases = generated universe x batch of 0..12 operations (core queries, mutations, introspection, operations that fail validation, ambiguous / unknown operationName, operations whose downstream fails because they touch a designated poison root field, and slow operations held at their owning service by a gate) x completion order of the gated operations (a permutation released one by one) x AsyncMapReduce hook jitter; " +
		"oracle = differential against the same gateway: element i of the batch answer must equal the answer obtained by sending operation i alone (data exactly, errors as a multiset), the array has length N; the multiset of (service, sub-request text, variables) received during the batch equals the one received over the single runs; the race detector watches the real pipeline; " +
		"distinct = distinct (batch content hash, release order); non-trivial = N >= 2 and at least two different kinds of element"
}
func (c08) Assumptions() []string {
	return []string{"fake services are deterministic and their faults/delays are keyed by operation content (poison field, operation name), so 'alone' and 'in the batch' see the same downstream behaviour", "the gate only orders root calls of named operations; later steps run freely"}
}
func (p c08) per(c *run.Ctx) (int, int) {
	if c.Tier == "thorough" {
		return 100, 600
	}
	return 8, 110
}
func (p c08) NumCases(c *run.Ctx) int { u, o := p.per(c); return u * o }

func batchProfile(r *rand.Rand) (gen.Profile, gen.DataCfg) {
	p := gen.DefaultProfile()
	return p, gen.DataCfg{Seed: uint64(r.Int63()), PNull: 0, ListMax: 2, Pool: 3}
}

func (p c08) Gen(c *run.Ctx, idx int) (json.RawMessage, error) {
	_, o := p.per(c)
	uidx := idx / o
	cu, err := universe(c.Seed, "batch", uidx, batchProfile)
	if err != nil {
		return nil, err
	}
	r := rng(c.Seed, "c08/batch", idx)
	cs := c08Case{U: cu.spec, Jitter: uint64(r.Int63())}
	cs.Poison = firstScalarRoot(cu.mono)
	if cs.Poison == "__typename" {
		cs.Poison = ""
	}
	n := r.Intn(13)
	if r.Intn(10) == 0 {
		n = 0
	}
	for i := 0; i < n; i++ {
		name := fmt.Sprintf("B%d", i)
		var op *gen.Op
		switch k := r.Intn(12); {
		case k < 5:
			prof := coreOpProfile()
			prof.Depth, prof.Width, prof.ForceName, prof.PMultiOp = 3, 2, name, 0
			op = genCoreOp(r, cu.mono, prof)
		case k == 5 && cu.mono.Mutation != nil:
			prof := coreOpProfile()
			prof.Depth, prof.Width, prof.ForceName, prof.Kind, prof.PMultiOp = 2, 2, name, ast.Mutation, 0
			op = genCoreOp(r, cu.mono, prof)
		case k == 6 && i%2 == 0:
			op = &gen.Op{Query: "query " + name + " { __schema { queryType { name } types { name kind } } }", OperationName: name}
		case k == 6:
			// introspection fed by variables: every operation of the batch reads its own values
			var tns []string
			for n := range cu.mono.Types {
				tns = append(tns, n)
			}
			sort.Strings(tns)
			op = &gen.Op{Query: "query " + name + "($n: String!, $d: Boolean!) { __type(name: $n) { name kind fields(includeDeprecated: $d) { name } enumValues(includeDeprecated: $d) { name } } }", OperationName: name,
				Variables: map[string]any{"n": pick(r, tns), "d": r.Intn(2) == 0}}
		case k == 7:
			op = &gen.Op{Query: pick(r, []string{"{ nope }", "query " + name + " { __typename { x } }", "query { ...Missing }", "{ __typename", "query(" + "$v: Nope) { __typename }"})}
		case k == 8:
			op = &gen.Op{Query: "query A { " + firstScalarRoot(cu.mono) + " } query B { " + firstScalarRoot(cu.mono) + " }"}
			if r.Intn(2) == 0 {
				op.OperationName = "Nope"
			}
		case k == 9 && cs.Poison != "":
			op = &gen.Op{Query: "query " + name + " { " + cs.Poison + " }", OperationName: name}
		default:
			prof := coreOpProfile()
			prof.Depth, prof.Width, prof.ForceName, prof.PMultiOp = 2, 3, name, 0
			op = genCoreOp(r, cu.mono, prof)
		}
		if op == nil {
			op = &gen.Op{Query: "query " + name + " { " + firstScalarRoot(cu.mono) + " }", OperationName: name}
		}
		cs.Ops = append(cs.Ops, *op)
		cs.Gated = append(cs.Gated, r.Intn(3) == 0 && op.OperationName == name)
	}
	// the same operation at several positions (verbatim copies, and twins that differ only in explicitly selected ids)
	if len(cs.Ops) >= 2 && r.Intn(2) == 0 {
		k := 1 + r.Intn(3)
		for j := 0; j < k; j++ {
			src, dst := r.Intn(len(cs.Ops)), r.Intn(len(cs.Ops))
			if src == dst {
				continue
			}
			cp := cs.Ops[src]
			if tw := opTwins(&cp); len(tw) > 0 && r.Intn(2) == 0 {
				cp = tw[r.Intn(len(tw))]
			}
			cs.Ops[dst], cs.Gated[dst] = cp, cs.Gated[src]
		}
	}
	if r.Intn(3) == 0 {
		cs.Cfg.Planner, cs.Cfg.TTLms = "cached", 3600000
	}
	if r.Intn(4) == 0 {
		// small downstream batches through one shared client per service: chunked and plain calls of different
		// operations run through the same MultiOpQueryer at the same time
		cs.Cfg.MaxBatch, cs.Cfg.SharedQueryer = 1+r.Intn(2), true
	}
	var gated []int
	seenGate := map[string]bool{}
	for i, g := range cs.Gated {
		if g && seenGate[cs.Ops[i].OperationName] {
			continue // one gate per operation name
		}
		if g {
			seenGate[cs.Ops[i].OperationName] = true
		}
		if g {
			gated = append(gated, i)
		}
	}
	r.Shuffle(len(gated), func(i, j int) { gated[i], gated[j] = gated[j], gated[i] })
	cs.Order = gated
	return mustJSON(cs), nil
}

func normErrors(errs []any) []string {
	var out []string
	for _, e := range errs {
		b, _ := json.Marshal(e)
		out = append(out, string(b))
	}
	sort.Strings(out)
	return out
}

func sameResponse(a, b *rig.GQLResponse) *rig.Diff {
	if d := rig.FirstDiff(anyMap(a.Data), anyMap(b.Data), "data"); d != nil {
		return d
	}
	ea, eb := normErrors(a.Errors), normErrors(b.Errors)
	if strings.Join(ea, "\n") != strings.Join(eb, "\n") {
		return &rig.Diff{Path: "errors", Kind: "errors-multiset", Ref: ea, Got: eb}
	}
	if a.HasData != b.HasData {
		return &rig.Diff{Path: "data", Kind: "data-key-presence", Ref: a.HasData, Got: b.HasData}
	}
	return nil
}

func anyMap(m map[string]any) any {
	if m == nil {
		return nil
	}
	return m
}

func (p c08) Exec(c *run.Ctx, idx int, raw json.RawMessage) []run.Result {
	var sp c08Case
	if err := json.Unmarshal(raw, &sp); err != nil {
		return []run.Result{{Verdict: "broken", Message: err.Error()}}
	}
	res := run.Result{Verdict: run.Held, Counters: map[string]int{}}
	r, err := rig.New(sp.U, sp.Cfg)
	if r != nil {
		defer r.Close()
	}
	if err != nil {
		res.Verdict = run.Skip
		res.Counters["setup_failed"] = 1
		return []run.Result{res}
	}
	// "sent alone": a second gateway with the plain (stateless) planner that never sees the batch
	ra, err := rig.New(sp.U, rig.Config{})
	if ra != nil {
		defer ra.Close()
	}
	if err != nil {
		res.Verdict = run.Skip
		res.Counters["setup_failed"] = 1
		return []run.Result{res}
	}
	var poisonRe *regexp.Regexp
	if sp.Poison != "" {
		poisonRe = regexp.MustCompile(`\{\s*` + regexp.QuoteMeta(sp.Poison) + `\b`)
	}
	var gmu sync.Mutex
	gates := map[string]chan struct{}{}
	answered := map[string]chan struct{}{}
	for _, s := range r.Services {
		s.FaultFn = func(cl *fake.Call) *fake.Fault {
			if poisonRe == nil {
				return nil
			}
			for _, rq := range cl.Requests {
				if poisonRe.MatchString(rq.Query) {
					return &fake.Fault{Kind: "errors", Pos: -1, Errs: []map[string]any{{"message": "poisoned field", "extensions": map[string]any{"code": "POISON"}}}}
				}
			}
			return nil
		}
		s.Before = func(cl *fake.Call) {
			for _, rq := range cl.Requests {
				gmu.Lock()
				g := gates[rq.OperationName]
				gmu.Unlock()
				if g != nil {
					select {
					case <-g:
					case <-time.After(20 * time.Second):
					}
				}
			}
		}
		s.After = func(cl *fake.Call) {
			for _, rq := range cl.Requests {
				gmu.Lock()
				if a := answered[rq.OperationName]; a != nil {
					select {
					case <-a:
					default:
						close(a)
					}
				}
				gmu.Unlock()
			}
		}
	}
	for _, s := range ra.Services {
		s.FaultFn = r.Services[0].FaultFn
	}
	// alone runs
	evKey := func(e *fake.Event) string {
		vb, _ := json.Marshal(e.Variables)
		return e.Service + " | " + strings.Join(strings.Fields(e.Query), " ") + " | " + string(vb)
	}
	aloneMark := ra.Log.Len()
	alone := make([]*rig.GQLResponse, len(sp.Ops))
	kinds := map[string]bool{}
	for i := range sp.Ops {
		hr := ra.Query(&sp.Ops[i])
		if hr.Panic != nil {
			res.Verdict, res.Symptom, res.Message = run.Violated, "handler-panic(single): "+errTemplate(fmt.Sprint(hr.Panic)), fmt.Sprint(hr.Panic)+"\n"+hr.Stack
			return []run.Result{res}
		}
		g, derr := rig.DecodeSingle(hr.Body)
		if derr != nil {
			res.Verdict, res.Symptom, res.Message = run.Violated, "single-response-malformed", derr.Error()+": "+string(hr.Body)
			return []run.Result{res}
		}
		alone[i] = g
		switch {
		case len(g.Errors) > 0 && g.Data == nil:
			kinds["failed"] = true
		case len(g.Errors) > 0:
			kinds["partial"] = true
		default:
			kinds["ok"] = true
		}
	}
	// batch run under jitter with gates
	for _, i := range sp.Order {
		gates[sp.Ops[i].OperationName] = make(chan struct{})
		answered[sp.Ops[i].OperationName] = make(chan struct{})
	}
	sched.Install(sched.Options{Seed: sp.Jitter, Jitter: true, Record: true, MaxEvents: 20000})
	defer sched.Uninstall()
	aloneEvents := map[string]int{}
	for _, e := range ra.Log.Since(aloneMark) {
		aloneEvents[evKey(e)]++
	}
	batchMark := r.Log.Len()
	body, _ := json.Marshal(opsToWire(sp.Ops))
	if sp.Jitter%4 == 0 {
		// a pretty-printed / templated body: JSON allows white space around the array
		body = append([]byte("\n  "), append(body, []byte(" \n")...)...)
	}
	done := make(chan *rig.HTTPResult, 1)
	go func() { done <- r.Do("application/json", body) }()
	go func() {
		for _, i := range sp.Order {
			name := sp.Ops[i].OperationName
			gmu.Lock()
			g, a := gates[name], answered[name]
			gmu.Unlock()
			time.Sleep(200 * time.Microsecond)
			close(g)
			select {
			case <-a:
			case <-time.After(30 * time.Millisecond): // the operation may never reach a service (invalid, introspection)
			}
		}
	}()
	var hr *rig.HTTPResult
	select {
	case hr = <-done:
	case <-time.After(90 * time.Second):
		res.Verdict, res.Symptom, res.Message = run.Violated, "batch-handler-did-not-return", "no answer within 90s"
		return []run.Result{res}
	}
	res.Traces = sched.TraceHashes(sched.Events())
	res.Counters["hook_events"] = len(sched.Events())
	res.Counters[fmt.Sprintf("batch_len_%d", len(sp.Ops))] = 1
	res.Counters["gated_ops"] = len(sp.Order)
	res.NonTrivial = len(sp.Ops) >= 2 && len(kinds) >= 2
	res.Key = hashStr(string(body), fmt.Sprint(sp.Order))
	res.Tags = sortedKeys(kinds)
	fail := func(sym, msg string) []run.Result {
		res.Verdict, res.Symptom, res.Message = run.Violated, sym, msg
		return []run.Result{res}
	}
	if hr.Panic != nil {
		return fail("handler-panic(batch): "+errTemplate(fmt.Sprint(hr.Panic)), fmt.Sprint(hr.Panic)+"\n"+hr.Stack)
	}
	if hr.Status != 200 {
		return fail(fmt.Sprintf("batch-status-%d", hr.Status), string(hr.Body))
	}
	got, derr := rig.DecodeBatch(hr.Body)
	if derr != nil {
		return fail("batch-response-malformed", derr.Error()+": "+head(string(hr.Body), 600))
	}
	if len(got) != len(sp.Ops) {
		return fail("batch-length-mismatch", fmt.Sprintf("%d operations, %d results: %s", len(sp.Ops), len(got), head(string(hr.Body), 400)))
	}
	for i := range got {
		if d := sameResponse(alone[i], got[i]); d != nil {
			return fail("batch-element-differs-from-single: "+d.Kind, fmt.Sprintf("element %d of %d (release order %v): %s\noperation: %s", i, len(got), sp.Order, d.String(), sp.Ops[i].Query))
		}
	}
	// what the services were asked: the batch causes exactly the sub-requests its operations cause one by one
	// (an operation sent twice reaches its services twice)
	batchEvents := map[string]int{}
	for _, e := range r.Log.Since(batchMark) {
		batchEvents[evKey(e)]++
	}
	res.Counters["downstream_requests_compared"] = len(batchEvents)
	for _, k := range sortedKeys(aloneEvents) {
		if batchEvents[k] != aloneEvents[k] {
			return fail("batch-downstream-requests-differ-from-singles", fmt.Sprintf("sub-request received %d times in the batch run, %d times over the single runs: %s", batchEvents[k], aloneEvents[k], head(k, 500)))
		}
	}
	for _, k := range sortedKeys(batchEvents) {
		if aloneEvents[k] == 0 {
			return fail("batch-downstream-requests-differ-from-singles", fmt.Sprintf("sub-request received %d times in the batch run, never over the single runs: %s", batchEvents[k], head(k, 500)))
		}
	}
	if res.NonTrivial {
		var qs []string
		for _, o := range sp.Ops {
			qs = append(qs, head(strings.Join(strings.Fields(o.Query), " "), 80))
		}
		res.Sample = map[string]any{"batch": qs, "release_order": sp.Order, "kinds": sortedKeys(kinds)}
	}
	return []run.Result{res}
}

func opsToWire(ops []gen.Op) []map[string]any {
	out := make([]map[string]any, 0, len(ops))
	for _, op := range ops {
		m := map[string]any{"query": op.Query}
		if op.Variables != nil {
			m["variables"] = op.Variables
		}
		if op.OperationName != "" {
			m["operationName"] = op.OperationName
		}
		out = append(out, m)
	}
	return out
}
