package props

import (
	"encoding/json"
	"fmt"
	"github.com/buildbuildio/pebbles/planner"
	"math/rand"
	"regexp"
	"strings"
	"sync"
	"sync/atomic"
	"time"

	"verif/harness/internal/engine"
	"verif/harness/internal/fake"
	"verif/harness/internal/gen"
	"verif/harness/internal/rig"
	"verif/harness/internal/run"
	"verif/harness/internal/sched"

	"github.com/vektah/gqlparser/v2"
	"github.com/vektah/gqlparser/v2/ast"
)

// C17 — subscription events are delivered once, in order, fully stitched.
type c17 struct{}

type subSpec struct {
	ID     string          `json:"id"`
	Op     gen.Op          `json:"op"`
	Marker string          `json:"marker"`
	Script []fake.SubEvent `json:"script"`
}

type c17Case struct {
	U      rig.UniverseSpec `json:"universe"`
	Cfg    rig.Config       `json:"config"`
	Conns  [][]subSpec      `json:"connections"`
	Jitter uint64           `json:"jitter_seed"`
	Deep   bool             `json:"three_service_chain,omitempty"`
	// Prelude: before the scenario another client connection runs the first subscription once (own marker), sees an
	// event and disconnects abruptly: what that connection set up must not be what later connections depend on
	Prelude bool `json:"prelude_connection,omitempty"`
	// ChildFault: the first follow-up call each service receives is answered with GraphQL errors: that event reports
	// them, the events after it are stitched as if nothing had happened
	ChildFault bool `json:"first_child_call_fails,omitempty"`
	// Pings: the clients send ping frames all along (the gateway's reader answers them with pongs while its
	// listeners write data frames) over a connection that pauses between the header and the payload of a frame
	Pings bool `json:"client_pings,omitempty"`
}

func (c17) ID() string            { return "C17" }
func (c17) Level() string         { return "exploration" }
func (c17) RaceIsViolation() bool { return true }
func (c17) Rule() string {
	return "scenarios = generated universe with Subscription fields x 1-3 client websocket connections x 1-3 subscriptions each (started concurrently), each with a generated core subscription operation carrying a unique marker and an upstream event script (1-12 data events with pauses, upstream `errors` payloads, then complete / error frame / stay open), gateway behind a real HTTP server with plain or caching planner, hook jitter on; " +
		"oracle (offline over the frames each strict client read + the upstream emit log): per subscription id the data frames are exactly the emitted events in order (i-th frame = reference evaluation of the client's selection on event i over the monolith, child fields really fetched from other services; helper fields removed), no frame of one marker under another id, upstream errors forwarded as errors under the right id; every frame is a complete well-formed message; scenarios end upstream-first, the verdict is taken before teardown; " +
		"distinct = distinct (operations, scripts, concurrency shape); non-trivial = some subscription needs a cross-service child step or >= 2 subscriptions run concurrently"
}
func (c17) Assumptions() []string {
	return []string{"loopback TCP websocket upstreams (real dial from pebbles' queryer) that validate the start payload against their SDL", "quiescence = upstream scripts finished and no new client frame for 150 ms (bounded wait 10 s => inconclusive)"}
}
func (p c17) per(c *run.Ctx) (int, int) {
	if c.Tier == "thorough" {
		return 60, 150
	}
	return 6, 20
}
func (p c17) NumCases(c *run.Ctx) int  { u, o := p.per(c); return u * o }
func (p c17) BatchSize(c *run.Ctx) int { return 4 }

func subProfile(r *rand.Rand) (gen.Profile, gen.DataCfg) {
	p := gen.DefaultProfile()
	p.Subscriptions = true
	p.Interfaces, p.Unions = [2]int{0, 0}, [2]int{0, 0}
	p.PArgs = 0.15
	d := gen.DataCfg{Seed: uint64(r.Int63()), PNull: 0, ListMax: 2, Pool: 3}
	if r.Intn(2) == 0 {
		d.PNull, d.NoNullObjElems = 30, true // events whose objects owned by other services are null / lists empty: nothing to stitch
	}
	return p, d
}

func emitsWanted(script []fake.SubEvent) int {
	n := 0
	for _, e := range script {
		if e.Kind == "data" || e.Kind == "errors-payload" || e.Kind == "errors+data" {
			n++
		}
	}
	return n
}

var rootFieldRe = regexp.MustCompile(`^(subscription[^{]*\{\s*)((?:\w+:\s*)?\w+)(\(([^)]*)\))?`)
var markerArgRe = regexp.MustCompile(`marker:\s*("[^"]*"|\$\w+|null)\s*,?\s*`)

// genSubOp generates a subscription operation whose root field carries marker.
func genSubOp(r *rand.Rand, mono *ast.Schema, marker string) *gen.Op {
	return genSubOpDepth(r, mono, marker, 3)
}

// serviceChain is the largest number of distinct services met along one path of the operation, counting the
// owner of the subscription field first: 3 and more means a service that is reached only through another dependent one.
func serviceChain(u *gen.Universe, mono *ast.Schema, q string) int {
	doc, err := gqlparser.LoadQuery(mono, q)
	if err != nil || len(doc.Operations) == 0 {
		return 0
	}
	best := 0
	var walk func(ss ast.SelectionSet, typ string, cur int, seen map[int]bool)
	walk = func(ss ast.SelectionSet, typ string, cur int, seen map[int]bool) {
		for _, sel := range ss {
			switch x := sel.(type) {
			case *ast.InlineFragment:
				walk(x.SelectionSet, typ, cur, seen)
				continue
			case *ast.FragmentSpread:
				if x.Definition != nil {
					walk(x.Definition.SelectionSet, typ, cur, seen)
				}
				continue
			}
			f, ok := sel.(*ast.Field)
			if !ok || strings.HasPrefix(f.Name, "__") || f.Definition == nil {
				continue
			}
			owner := cur
			if t := u.Type(typ); t != nil && t.Kind == gen.KEntity && f.Name != "id" {
				for _, fd := range t.Fields {
					if fd.Name == f.Name {
						owner = fd.Owner
					}
				}
			}
			ns := seen
			if !seen[owner] {
				ns = map[int]bool{owner: true}
				for k := range seen {
					ns[k] = true
				}
			}
			if len(ns) > best {
				best = len(ns)
			}
			walk(f.SelectionSet, f.Definition.Type.Name(), owner, ns)
		}
	}
	for _, sel := range doc.Operations[0].SelectionSet {
		f, ok := sel.(*ast.Field)
		if !ok || f.Definition == nil {
			continue
		}
		for _, sf := range u.Subs {
			if sf.Name == f.Name {
				walk(f.SelectionSet, f.Definition.Type.Name(), sf.Owner, map[int]bool{sf.Owner: true})
			}
		}
	}
	return best
}

func genSubOpDepth(r *rand.Rand, mono *ast.Schema, marker string, depth int) *gen.Op {
	return genSubOpFrag(r, mono, marker, depth, -1)
}

// genSubOpFrag: pFragment >= 0 overrides the probability of named fragments in the selection.
func genSubOpFrag(r *rand.Rand, mono *ast.Schema, marker string, depth int, pFragment float64) *gen.Op {
	for try := 0; try < 40; try++ {
		prof := coreOpProfile()
		prof.Kind, prof.Depth, prof.Width, prof.PMultiOp, prof.POpName, prof.PVar = ast.Subscription, depth, 3, 0, 0.3, 0.1
		if pFragment >= 0 {
			prof.PFragment = pFragment
		}
		op := genCoreOp(r, mono, prof)
		if op == nil {
			return nil
		}
		q := strings.TrimSpace(op.Query)
		m := rootFieldRe.FindStringSubmatchIndex(q)
		if m == nil {
			continue
		}
		head, field := q[m[2]:m[3]], q[m[4]:m[5]]
		args := ""
		if m[8] >= 0 {
			args = q[m[8]:m[9]]
		}
		args = strings.TrimSuffix(strings.TrimSpace(markerArgRe.ReplaceAllString(args, "")), ",")
		newArgs := fmt.Sprintf(`marker: %q`, marker)
		if strings.TrimSpace(args) != "" {
			newArgs += ", " + args
		}
		rest := q[m[1]:]
		nq := head + field + "(" + newArgs + ")" + rest
		if _, err := gqlparser.LoadQuery(mono, nq); err != nil {
			continue
		}
		op.Query = nq
		// variables possibly dropped with the marker argument: keep only declared ones (validation passed => fine)
		return op
	}
	return nil
}

func (p c17) Gen(c *run.Ctx, idx int) (json.RawMessage, error) {
	_, o := p.per(c)
	uidx := idx / o
	cu, err := universe(c.Seed, "subs", uidx, subProfile)
	if err != nil {
		return nil, err
	}
	if cu.mono.Subscription == nil {
		return nil, nil
	}
	r := rng(c.Seed, "c17/scenario", idx)
	cs := c17Case{U: cu.spec, Jitter: uint64(r.Int63())}
	if r.Intn(3) == 0 {
		cs.Cfg.Planner, cs.Cfg.TTLms = "cached", 3600000
	}
	nconn := 1 + r.Intn(3)
	for ci := 0; ci < nconn; ci++ {
		var subs []subSpec
		ns := 1 + r.Intn(3)
		for si := 0; si < ns; si++ {
			marker := fmt.Sprintf("mk-%d-%d", ci, si)
			op := genSubOp(r, cu.mono, marker)
			if op == nil {
				continue
			}
			if cs.Cfg.Planner == "cached" && si == 0 {
				// a selection that crosses services behind a named fragment; started again (same text, the marker as a
				// variable) it is a cache hit whose operation was never planned
				r3 := rng(c.Seed, "c17/frag", idx*8+ci)
				for try := 0; try < 30; try++ {
					if cand := genSubOpFrag(r3, cu.mono, marker, 3, 0.7); cand != nil && strings.Contains(cand.Query, "fragment ") && serviceChain(cu.u, cu.mono, cand.Query) >= 2 {
						op = cand
						break
					}
				}
			}
			if idx%3 == 1 && ci == 0 && si == 0 && cu.u.K >= 3 {
				// directed: a selection that walks through three services, the third met below a dependent step
				r2 := rng(c.Seed, "c17/deep", idx)
				for try := 0; try < 40; try++ {
					if cand := genSubOpDepth(r2, cu.mono, marker, 4); cand != nil && serviceChain(cu.u, cu.mono, cand.Query) >= 3 {
						op = cand
						cs.Deep = true
						break
					}
				}
			}
			var script []fake.SubEvent
			n := 1 + r.Intn(12)
			for k := 0; k < n; k++ {
				if r.Intn(3) == 0 {
					script = append(script, fake.SubEvent{Kind: "sleep", SleepUs: r.Intn(3000)})
				}
				if x := r.Intn(12); x == 0 {
					script = append(script, fake.SubEvent{Kind: "errors-payload"})
				} else if x == 1 {
					script = append(script, fake.SubEvent{Kind: "errors+data"})
				} else {
					script = append(script, fake.SubEvent{Kind: "data"})
				}
			}
			switch r.Intn(5) {
			case 0:
				script = append(script, fake.SubEvent{Kind: []string{"error-frame", "error-frame-object"}[r.Intn(2)]})
			case 1: // stay open
			default:
				script = append(script, fake.SubEvent{Kind: "complete"})
			}
			id := fmt.Sprintf("s%d", si)
			if r.Intn(4) == 0 {
				// ids are client-chosen strings: control characters, quotes, non-BMP and non-printable runes
				id = pick(r, []string{"unit\x1fsep\x7f", "q\"uote\\back", "emoji\U0001F600", "sp ace\ttab\nnl", "tag\U000e0001", "\u200d\u00a0", "0"}) + fmt.Sprint(si)
			}
			subs = append(subs, subSpec{ID: id, Op: *op, Marker: marker, Script: script})
		}
		// sometimes the subscriptions of one connection share one operation text and differ only in the
		// marker *variable* (same plan-cache key on a caching gateway)
		if len(subs) >= 2 && r.Intn(3) == 0 {
			base := subs[0]
			lit := fmt.Sprintf("marker: %q", base.Marker)
			if strings.Contains(base.Op.Query, lit) && !strings.Contains(base.Op.Query, "$mk") {
				q := strings.Replace(base.Op.Query, lit, "marker: $mk", 1)
				if i := strings.Index(q, "{"); i >= 0 {
					head := strings.TrimSpace(q[:i])
					if strings.Contains(head, "(") {
						q = strings.Replace(q, "(", "($mk: String, ", 1)
					} else {
						q = head + "($mk: String) " + q[i:]
					}
				}
				if _, err := gqlparser.LoadQuery(cu.mono, q); err == nil {
					for si := range subs {
						vars := map[string]any{}
						for k, v := range base.Op.Variables {
							vars[k] = v
						}
						vars["mk"] = subs[si].Marker
						subs[si].Op = gen.Op{Query: q, Variables: vars, OperationName: base.Op.OperationName}
					}
				}
			}
		}
		if len(subs) > 0 {
			cs.Conns = append(cs.Conns, subs)
		}
	}
	if len(cs.Conns) == 0 {
		return nil, nil
	}
	cs.Prelude = idx%4 == 3
	cs.ChildFault = idx%5 == 1
	if idx%6 == 5 {
		cs.Pings = true
		cs.Cfg.WriteGapUs = 300
	}
	return mustJSON(cs), nil
}

func startMsg(s subSpec) map[string]any {
	pl := map[string]any{"query": s.Op.Query}
	if s.Op.Variables != nil {
		pl["variables"] = s.Op.Variables
	}
	if s.Op.OperationName != "" {
		pl["operationName"] = s.Op.OperationName
	}
	return map[string]any{"id": s.ID, "type": "start", "payload": pl}
}

func (p c17) Exec(c *run.Ctx, idx int, raw json.RawMessage) []run.Result {
	var sp c17Case
	if err := json.Unmarshal(raw, &sp); err != nil {
		return []run.Result{{Verdict: "broken", Message: err.Error()}}
	}
	res := run.Result{Verdict: run.Held, Counters: map[string]int{}}
	r, err := rig.NewWS(sp.U, sp.Cfg)
	if err != nil {
		if r != nil {
			r.CloseWS()
		}
		res.Verdict = run.Skip
		res.Counters["setup_failed"] = 1
		res.Message = fmt.Sprint(err)
		return []run.Result{res}
	}
	scripts := map[string][]fake.SubEvent{}
	nsubs := 0
	for _, conn := range sp.Conns {
		for _, s := range conn {
			scripts[s.Marker] = s.Script
			nsubs++
		}
	}
	for _, u := range r.Upstreams {
		u.Script = func(marker string, req *engine.Request) []fake.SubEvent { return scripts[marker] }
	}
	if sp.ChildFault {
		for _, s := range r.Services {
			s.FaultFn = func(cl *fake.Call) *fake.Fault {
				if cl.SvcCall == 1 {
					return &fake.Fault{Kind: "errors", Pos: -1}
				}
				return nil
			}
		}
	}
	callsMark := 0
	if sp.Prelude && len(sp.Conns[0]) > 0 {
		pre := sp.Conns[0][0]
		pre.ID = "pre"
		pre.Op.Query = strings.ReplaceAll(pre.Op.Query, pre.Marker, "mk-pre")
		if pre.Op.Variables != nil {
			nv := map[string]any{}
			for k, v := range pre.Op.Variables {
				if v == any(pre.Marker) {
					v = "mk-pre"
				}
				nv[k] = v
			}
			pre.Op.Variables = nv
		}
		pre.Marker = "mk-pre"
		scripts["mk-pre"] = []fake.SubEvent{{Kind: "data"}, {Kind: "data"}}
		if cl, err := rig.DialWS(r.Server.URL); err == nil {
			cl.Send(map[string]any{"type": "connection_init"})
			cl.Send(startMsg(pre))
			for t := 0; t < 400; t++ {
				n := 0
				for _, f := range cl.Frames() {
					if f.Type == "data" || f.Type == "error" {
						n++
					}
				}
				if n >= 1 {
					break
				}
				time.Sleep(5 * time.Millisecond)
			}
			cl.Close()
			time.Sleep(20 * time.Millisecond)
			nsubs++
			res.Counters["prelude_connections"] = 1
		}
		callsMark = r.Log.Len()
	}
	sched.Install(sched.Options{Seed: sp.Jitter, Jitter: true, Record: true, MaxEvents: 20000})
	clients := make([]*rig.WSClient, len(sp.Conns))
	var dialErr error
	for i := range sp.Conns {
		cl, err := rig.DialWS(r.Server.URL)
		if err != nil {
			dialErr = err
			break
		}
		clients[i] = cl
		cl.Send(map[string]any{"type": "connection_init"})
	}
	if dialErr != nil {
		sched.Uninstall()
		r.CloseWS()
		return []run.Result{{Verdict: "broken", Message: "cannot dial gateway: " + dialErr.Error()}}
	}
	stopPings := make(chan struct{})
	defer close(stopPings)
	if sp.Pings {
		for _, cl := range clients {
			go func(cl *rig.WSClient) {
				for k := 0; ; k++ {
					select {
					case <-stopPings:
						return
					case <-time.After(150 * time.Microsecond):
					}
					if cl.SendPing([]byte(fmt.Sprintf("p%d", k%10))) != nil {
						return
					}
				}
			}(cl)
		}
	}
	var wg sync.WaitGroup
	for i, conn := range sp.Conns {
		for _, s := range conn {
			wg.Add(1)
			go func(cl *rig.WSClient, s subSpec) {
				defer wg.Done()
				cl.Send(startMsg(s))
			}(clients[i], s)
		}
	}
	wg.Wait()
	// quiescence: all upstream scripts finished (or stay-open ones emitted everything) and frames stable
	expectEmits := func() (int, bool) {
		total, allDone := 0, true
		seen := 0
		for _, u := range r.Upstreams {
			for _, uc := range u.Snapshot() {
				seen++
				total += int(atomic.LoadInt32(&uc.Emitted))
				want := 0
				for _, e := range scripts[uc.Marker] {
					if e.Kind == "data" || e.Kind == "errors-payload" || e.Kind == "errors+data" {
						want++
					}
				}
				if int(atomic.LoadInt32(&uc.Emitted)) < want && atomic.LoadInt32(&uc.Closed) == 0 {
					allDone = false
				}
			}
		}
		if seen < nsubs {
			allDone = false
		}
		return total, allDone
	}
	deadline := time.Now().Add(10 * time.Second)
	stableSince := time.Now()
	lastFrames := -1
	inconclusive := false
	for {
		nf := 0
		for _, cl := range clients {
			for _, f := range cl.Frames() {
				if f.Type == "data" || f.Type == "error" {
					nf++
				}
			}
		}
		emitted, done := expectEmits()
		if nf != lastFrames {
			lastFrames = nf
			stableSince = time.Now()
		}
		// logical quiescence: every emitted event (and every upstream error frame) has a frame at a client;
		// a short grace lets duplicates or strays arrive too.  Only when frames are missing does the wall clock
		// come in: nothing new for 2.5 s although all upstream scripts are done (a loaded machine delivers late, not never)
		expectFrames := emitted
		for _, u := range r.Upstreams {
			for _, uc := range u.Snapshot() {
				for _, e := range scripts[uc.Marker] {
					if (e.Kind == "error-frame" || e.Kind == "error-frame-object") && atomic.LoadInt32(&uc.Done) == 1 && int(atomic.LoadInt32(&uc.Emitted)) >= emitsWanted(scripts[uc.Marker]) {
						expectFrames++
					}
				}
			}
		}
		if done && nf >= expectFrames && time.Since(stableSince) > 40*time.Millisecond {
			break
		}
		if done && time.Since(stableSince) > 2500*time.Millisecond {
			res.Counters["settled_with_frames_missing"] = 1
			break
		}
		if time.Now().After(deadline) {
			inconclusive = true
			break
		}
		time.Sleep(3 * time.Millisecond)
	}
	for _, h := range sched.TraceHashes(sched.Events()) {
		res.Traces = append(res.Traces, h)
	}
	// ---- verdict before teardown
	var viol []violation
	add := func(sym, msg string) { viol = append(viol, violation{sym, msg}) }
	upByMarker := map[string]*fake.UpstreamConn{}
	for _, u := range r.Upstreams {
		for _, uc := range u.Snapshot() {
			upByMarker[uc.Marker] = uc
		}
	}
	crossService := false
	// round trips: an event costs each service at most one batched call per plan level at which it appears
	budget := map[string]int{}
	for ci, conn := range sp.Conns {
		frames := clients[ci].Frames()
		for _, f := range frames {
			if f.Problem != "" {
				add("malformed-frame", fmt.Sprintf("connection %d frame %d: %s raw=%s", ci, f.Seq, f.Problem, head(f.Raw, 200)))
			}
		}
		for _, s := range conn {
			uc := upByMarker[s.Marker]
			if uc == nil {
				add("subscription-never-reached-upstream", fmt.Sprintf("%s %s", s.ID, s.Op.Query))
				continue
			}
			if !uc.Valid {
				add("upstream-rejected-start-payload", uc.ValidErr+"\n"+uc.Query)
				continue
			}
			if strings.Count(uc.Query, "{") < strings.Count(s.Op.Query, "{") {
				crossService = true
			}
			// expected sequence
			var want []string // "data" or "errors"
			for _, e := range s.Script {
				switch e.Kind {
				case "data":
					want = append(want, "data")
				case "errors-payload":
					want = append(want, "errors")
				case "errors+data":
					want = append(want, "errors+data")
				}
			}
			emitted := int(atomic.LoadInt32(&uc.Emitted))
			if emitted < len(want) {
				want = want[:emitted]
			}
			if _, _, _, plan, perr := planShape(r, &s.Op); perr == nil && plan != nil {
				levels := map[string]map[int]bool{}
				var walk func(st []*planner.QueryPlanStep, d int)
				walk = func(st []*planner.QueryPlanStep, d int) {
					for _, x := range st {
						if d >= 2 {
							if levels[x.URL] == nil {
								levels[x.URL] = map[int]bool{}
							}
							levels[x.URL][d] = true
						}
						walk(x.Then, d+1)
					}
				}
				walk(plan.RootSteps, 1)
				for u, l := range levels {
					budget[u] += len(want) * len(l)
				}
			}
			if emitted >= len(want) {
				for _, e := range s.Script {
					if e.Kind == "error-frame" || e.Kind == "error-frame-object" {
						want = append(want, "error-frame") // forwarded to the client as errors under the same id
					}
				}
			}
			var got []rig.Frame
			for _, f := range frames {
				if f.ID == s.ID && (f.Type == "data" || f.Type == "error") {
					got = append(got, f)
				}
				// marker under a foreign id
				if f.ID != s.ID && f.Type == "data" && strings.Contains(f.Raw, s.Marker) {
					add("event-under-foreign-id", fmt.Sprintf("frame with id %s carries marker %s of subscription %s", f.ID, s.Marker, s.ID))
				}
			}
			if len(got) != len(want) {
				sym := "events-lost"
				if len(got) > len(want) {
					sym = "events-duplicated-or-invented"
				}
				add(sym, fmt.Sprintf("subscription %s (%s): upstream emitted %d events, client received %d data frames\nquery: %s", s.ID, s.Marker, len(want), len(got), s.Op.Query))
				continue
			}
			k := 0
			for i, f := range got {
				k++
				if want[i] == "error-frame" {
					el, _ := f.Payload["errors"].([]any)
					if f.Type == "error" {
						el = f.ErrList
					}
					if len(el) == 0 || !strings.Contains(errMessages(el), "upstream error frame "+s.Marker) {
						add("upstream-error-frame-not-forwarded-as-errors", fmt.Sprintf("subscription %s: %s", s.ID, head(f.Raw, 300)))
					}
					res.Counters["upstream_error_frames_forwarded"]++
					continue
				}
				if want[i] == "errors+data" {
					// a partial upstream answer: whatever happens to the data, the event's errors reach the client
					el, _ := f.Payload["errors"].([]any)
					if len(el) == 0 || !strings.Contains(errMessages(el), fmt.Sprintf("upstream partial error %s#%d", s.Marker, k)) {
						add("upstream-errors-next-to-data-not-forwarded", fmt.Sprintf("subscription %s event %d: %s", s.ID, k, head(f.Raw, 300)))
					}
					res.Counters["partial_events_checked"]++
					continue
				}
				if want[i] == "errors" {
					el, _ := f.Payload["errors"].([]any)
					if len(el) == 0 || !strings.Contains(errMessages(el), fmt.Sprintf("%s#%d", s.Marker, k)) {
						add("upstream-errors-not-forwarded", fmt.Sprintf("subscription %s event %d: %s", s.ID, k, head(f.Raw, 300)))
					}
					continue
				}
				ref := engine.Execute(r.Mono, engine.Request{Query: s.Op.Query, Variables: s.Op.Variables, OperationName: s.Op.OperationName}, r.Data, fmt.Sprintf("Subscription@%s#%d", s.Marker, k))
				if len(ref.Errors) > 0 {
					continue
				}
				if el, _ := f.Payload["errors"].([]any); len(el) > 0 && sp.ChildFault && strings.Contains(errMessages(el), "injected failure") {
					res.Counters["events_with_injected_child_fault"]++
					continue
				}
				if el, _ := f.Payload["errors"].([]any); len(el) > 0 {
					add("event-with-errors: "+errTemplate(errMessages(el)), fmt.Sprintf("subscription %s event %d: %s\nquery: %s", s.ID, k, errMessages(el), s.Op.Query))
					break
				}
				gd, _ := f.Payload["data"].(map[string]any)
				pr, pg := rig.Prune(rig.Roundtrip(ref.Data), anyMap(gd))
				if d := rig.FirstDiff(pr, pg, "data"); d != nil {
					add("event-payload-differs: "+d.Kind, fmt.Sprintf("subscription %s (%s) frame %d expected event %d: %s\nquery: %s", s.ID, s.Marker, i, k, d.String(), s.Op.Query))
					break
				}
				res.Counters["events_checked"]++
			}
			// error frame forwarded?
			for _, e := range s.Script {
				if e.Kind == "error-frame" && emitted >= len(want) {
					res.Counters["upstream_error_frames"]++
				}
			}
		}
	}
	res.Counters["subscriptions"] = nsubs
	res.Counters["connections"] = len(sp.Conns)
	res.NonTrivial = crossService || nsubs >= 2
	res.Key = hashStr(specHashOf(sp.U), jsonStr(sp.Conns), sp.Cfg.String())
	{
		calls := map[string]map[int64]bool{}
		for _, e := range r.Log.Since(callsMark) {
			if e.OpKw == "subscription" || e.CallID == 0 {
				continue
			}
			if calls[e.Service] == nil {
				calls[e.Service] = map[int64]bool{}
			}
			calls[e.Service][e.CallID] = true
		}
		for _, svc := range r.Services {
			res.Counters["downstream_http_calls"] += len(calls[svc.Name])
			if n := len(calls[svc.Name]); n > budget[svc.URL] {
				add("more-calls-than-plan-levels-per-event", fmt.Sprintf("service %s received %d batched calls; the events forwarded x the plan levels at which it appears allow %d", svc.Name, n, budget[svc.URL]))
			}
		}
	}
	res.Tags = cfgTags(sp.Cfg)
	if sp.Deep {
		res.Tags = append(res.Tags, "three-service-chain")
	}
	if inconclusive && len(viol) == 0 {
		res.Verdict, res.Symptom = run.Inconclusive, "quiescence-watchdog"
	}
	// ---- no teardown here: client-initiated teardown while events may flow is C18's subject. The
	// connections are left to the end of the child process (<= 4 scenarios per child).
	sched.Uninstall()
	r.Close()
	if len(viol) == 0 {
		if res.NonTrivial && res.Verdict == run.Held {
			var qs []string
			for _, conn := range sp.Conns {
				for _, s := range conn {
					qs = append(qs, fmt.Sprintf("%s events=%d %s", s.ID, len(s.Script), head(strings.Join(strings.Fields(s.Op.Query), " "), 120)))
				}
			}
			res.Sample = map[string]any{"connections": len(sp.Conns), "subscriptions": qs, "config": sp.Cfg.String()}
		}
		return []run.Result{res}
	}
	var out []run.Result
	seen := map[string]bool{}
	for _, v := range viol {
		if seen[v.symptom] {
			continue
		}
		seen[v.symptom] = true
		r2 := res
		r2.Verdict, r2.Symptom, r2.Message = run.Violated, v.symptom, v.msg
		if len(out) > 0 {
			r2.Key, r2.NonTrivial, r2.Counters, r2.Traces = "", false, nil, nil
		}
		out = append(out, r2)
	}
	return out
}
