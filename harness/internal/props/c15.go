package props

import (
	"encoding/json"
	"fmt"
	"runtime/debug"
	"strings"

	"verif/harness/internal/facts"
	"verif/harness/internal/fake"
	"verif/harness/internal/gen"
	"verif/harness/internal/run"

	"github.com/buildbuildio/pebbles/introspection"
	"github.com/buildbuildio/pebbles/queryer"
	"github.com/vektah/gqlparser/v2"
	"github.com/vektah/gqlparser/v2/ast"
)

// C15 — introspecting a service reproduces its schema.
type c15 struct{}

type c15Case struct {
	SDL      string             `json:"sdl"`
	Features gen.SchemaFeatures `json:"features"`
}

func (c15) ID() string            { return "C15" }
func (c15) Level() string         { return "exploration" }
func (c15) RaceIsViolation() bool { return false }
func (c15) Rule() string {
	return "cases = generated valid SDL covering the type system (every kind, list/non-null wrappers to depth 9, argument and input-field defaults of every literal kind incl. enum/object/list/null/escaped strings, custom scalars (+specifiedBy), directive definitions with arguments / repeatable on many locations, deprecations with and without reason, descriptions incl. block strings, interfaces implementing interfaces, types shared by two unions, non-default root type names); " +
		"the schema is served by the harness's spec-shaped introspection responder (reference engine executing the literal introspection query pebbles sends) through the real ParallelRemoteSchemaIntrospector and MultiOpQueryer over the in-memory transport; " +
		"oracle: fact set of the reconstruction equals the fact set of S (types, fields, argument names/types/defaults, wrappers, enum values, union members, implements edges, input fields+defaults, directives with args/locations/repeatable, deprecations, descriptions, root types); generated operations are valid on S iff valid on the reconstruction; a failure to reconstruct a valid S is a violation, as is a panic; " +
		"responder soundness: the responder's own answer must rebuild (harness routine) into an equal fact set, otherwise the case is broken, not violated; " +
		"distinct = distinct SDL hashes; non-trivial = every case"
}
func (c15) Assumptions() []string {
	return []string{"the reference engine's introspection follows the October-2021 spec shape (defaultValue as GraphQL literal strings; specifiedByURL and isRepeatable are not requested by pebbles' query and therefore cannot be reconstructed: facts about them are excluded)"}
}
func (p c15) NumCases(c *run.Ctx) int {
	if c.Tier == "thorough" {
		return 20000
	}
	return 240
}

func (p c15) Gen(c *run.Ctx, idx int) (json.RawMessage, error) {
	r := rng(c.Seed, "c15/schema", idx)
	f := gen.RandomFeatures(r)
	sdl := gen.GenSchema(r, f)
	if _, err := gqlparser.LoadSchema(&ast.Source{Name: "s", Input: sdl}); err != nil {
		return nil, fmt.Errorf("generator bug: schema SDL does not load: %v\n%s", err, sdl)
	}
	return mustJSON(c15Case{SDL: sdl, Features: f}), nil
}

func c15Facts(s *ast.Schema) facts.Set {
	o := facts.All()
	fs := facts.Of(s, o)
	// pebbles' introspection query does not ask for isRepeatable / specifiedByURL
	out := facts.Set{}
	for k := range fs {
		k = strings.Replace(k, " repeatable=true ", " repeatable=* ", 1)
		k = strings.Replace(k, " repeatable=false ", " repeatable=* ", 1)
		out[k] = true
	}
	return out
}

func (p c15) Exec(c *run.Ctx, idx int, raw json.RawMessage) []run.Result {
	var sp c15Case
	if err := json.Unmarshal(raw, &sp); err != nil {
		return []run.Result{{Verdict: "broken", Message: err.Error()}}
	}
	res := run.Result{Verdict: run.Held, Counters: map[string]int{}, NonTrivial: true}
	res.Key = hashStr(sp.SDL)
	res.Tags = sp.Features.Tags()
	if sc, e := gqlparser.LoadSchema(&ast.Source{Name: "s", Input: sp.SDL}); e == nil {
		maxd := 0
		depth := func(t *ast.Type) int {
			d := 0
			for t != nil {
				if t.NonNull {
					d++
				}
				if t.Elem != nil {
					d++
				}
				t = t.Elem
			}
			return d
		}
		for _, def := range sc.Types {
			for _, f := range def.Fields {
				if d := depth(f.Type); d > maxd {
					maxd = d
				}
				for _, a := range f.Arguments {
					if d := depth(a.Type); d > maxd {
						maxd = d
					}
				}
			}
		}
		if maxd > 7 {
			res.Tags = append(res.Tags, "s:wrapper-depth>7")
		}
		res.Counters[fmt.Sprintf("max_wrapper_depth_%d", maxd)] = 1
	}
	log := &fake.Log{}
	url := fmt.Sprintf("http://c15-%d.test/graphql", idx)
	svc, err := fake.NewService("s", url, sp.SDL, nil, log)
	if err != nil {
		return []run.Result{{Verdict: "broken", Message: err.Error()}}
	}
	fake.Global.Register(svc)
	defer fake.Global.Unregister(svc)
	want := c15Facts(svc.Schema)
	var schemas []*ast.Schema
	var ierr error
	var pan any
	var stack string
	func() {
		defer func() {
			if p := recover(); p != nil {
				pan, stack = p, string(debug.Stack())
			}
		}()
		in := &introspection.ParallelRemoteSchemaIntrospector{Factory: func(u string) queryer.Queryer { return queryer.NewMultiOpQueryer(u, 1) }}
		schemas, ierr = in.IntrospectRemoteSchemas(url)
	}()
	fail := func(sym, msg string) []run.Result {
		res.Verdict, res.Symptom, res.Message = run.Violated, sym, msg
		return []run.Result{res}
	}
	if pan != nil {
		return fail("introspection-panic: "+errTemplate(fmt.Sprint(pan)), fmt.Sprintf("%v\n%s", pan, stack))
	}
	if ierr != nil {
		return fail("valid-schema-rejected: "+errTemplate(ierr.Error()), ierr.Error()+"\n"+head(sp.SDL, 1500))
	}
	if len(schemas) != 1 || schemas[0] == nil {
		return fail("no-schema-returned", fmt.Sprint(len(schemas)))
	}
	got := c15Facts(schemas[0])
	missing, extra := facts.Diff(want, got)
	res.Counters["facts_compared"] = len(want)
	var out []run.Result
	if len(missing) > 0 {
		r2 := res
		r2.Verdict, r2.Symptom = run.Violated, "facts-lost: "+factKinds(missing)
		r2.Message = "in S but not in the reconstruction: " + truncList(missing, 10) + "\nextra in reconstruction: " + truncList(extra, 10)
		out = append(out, r2)
	} else if len(extra) > 0 {
		r2 := res
		r2.Verdict, r2.Symptom = run.Violated, "facts-invented: "+factKinds(extra)
		r2.Message = "in the reconstruction but not in S: " + truncList(extra, 10)
		out = append(out, r2)
	}
	// consequence: operation validity agrees
	r := rng(c.Seed, "c15/ops", idx)
	for n := 0; n < 6; n++ {
		prof := gen.DefaultOpProfile()
		prof.Depth, prof.PNodeRoot = 2, 0
		op := gen.GenOp(r, svc.Schema, prof)
		if op == nil {
			continue
		}
		_, e1 := gqlparser.LoadQuery(svc.Schema, op.Query)
		_, e2 := gqlparser.LoadQuery(schemas[0], op.Query)
		res.Counters["operations_cross_validated"]++
		if (e1 == nil) != (e2 == nil) {
			r2 := res
			r2.Verdict, r2.Symptom = run.Violated, "operation-validity-differs"
			r2.Message = fmt.Sprintf("operation %s\nvalid on S: %v (%v)\nvalid on reconstruction: %v (%v)", op.Query, e1 == nil, e1, e2 == nil, e2)
			r2.Key, r2.NonTrivial, r2.Counters = "", false, nil
			out = append(out, r2)
			break
		}
	}
	if len(out) > 0 {
		return out
	}
	if idx%13 == 0 {
		res.Sample = map[string]any{"features": sp.Features.Tags(), "facts": len(want), "sdl_head": head(sp.SDL, 500)}
	}
	return []run.Result{res}
}
