package props

import (
	"bytes"
	"encoding/json"
	"fmt"
	"math/rand"
	"mime/multipart"
	"net/textproto"
	"strings"
	"time"
	"unicode/utf8"

	"verif/harness/internal/engine"
	"verif/harness/internal/gen"
	"verif/harness/internal/rig"
	"verif/harness/internal/run"

	"github.com/vektah/gqlparser/v2"
	"github.com/vektah/gqlparser/v2/ast"
)

// C07 — every HTTP request gets a well-formed response; none can crash the gateway.
type c07 struct{}

type c07Case struct {
	U           rig.UniverseSpec `json:"universe"`
	ContentType string           `json:"content_type"`
	BodyB64     []byte           `json:"body"`              // raw body bytes (base64 in JSON)
	Class       string           `json:"class"`             // generator class
	Expect      string           `json:"expect"`            // "decodable" | "undecodable" | "ambiguous" per the independent decoder
	Invalid     []bool           `json:"invalid,omitempty"` // per operation: fails validation against the gateway schema (decided at exec time too)
	Canary      gen.Op           `json:"canary"`
	Cfg         rig.Config       `json:"config"` // id-type hint, caching planner (the request is then sent twice: the judged answer comes through the cache), node-hiding merger
}

func (c07) ID() string            { return "C07" }
func (c07) Level() string         { return "exploration" }
func (c07) RaceIsViolation() bool { return false }
func (c07) Rule() string {
	return "cases = one hostile POST each against a real gateway over fake services (fresh child-process isolation): byte-level bodies (random, truncated/duplicated JSON, deep nesting, huge numbers, invalid UTF-8, BOM) under every accepted and some unknown content types; JSON shapes (null, scalars, [], [null], [1], nested arrays, wrong member types, mixed batches); multipart layouts (missing parts, non-object map, missing file, empty / short / out-of-range / negative / non-numeric / through-scalar / duplicate paths); syntactically valid operations on corner-case schemas (interface without members, root __typename, node with/without fragments, fragments on root types, introspection mixed with data, unknown operationName) and operations that fail validation; " +
		"monitors: handler returns within the bound, no panic, no process death, body is JSON (object, or array for batches) whose elements carry data and/or errors, status 422 iff the harness's independent decoder calls the request undecodable and 200 iff decodable (ambiguous inputs: well-formedness only), invalid operations get errors + data:null, and a canary operation sent afterwards gets its reference answer; " +
		"distinct = distinct (content-type class, generator class, outcome class, body hash); non-trivial = every case"
}
func (c07) Assumptions() []string {
	return []string{"independent decoder in harness/internal/props/c07.go decides decodable/undecodable/ambiguous before the request is sent", "handler is driven through httptest recorder with a recover wrapper; a panic there would be swallowed by net/http in production, which the statement does not allow either"}
}
func (p c07) per(c *run.Ctx) (int, int) {
	if c.Tier == "thorough" {
		return 60, 4000
	}
	return 6, 700
}
func (p c07) NumCases(c *run.Ctx) int { u, o := p.per(c); return u * o }

func cornerProfile(r *rand.Rand) (gen.Profile, gen.DataCfg) {
	p := gen.DefaultProfile()
	p.EmptyAbstract = 0.7
	p.Uploads = true
	// object fields called `node`, arguments of a custom scalar type (literals with variables inside)
	p.NodeNamedField, p.ScalarArgs, p.PArgs = 0.4, true, 0.4
	p.BareEntity = 0.4 // Node types without any field besides id: known to the gateway, owned by no service
	return p, gen.DataCfg{Seed: uint64(r.Int63()), PNull: 10, ListMax: 2, Pool: 3}
}

var c07ContentTypes = []string{"application/json", "application/json; charset=utf-8", "text/plain", "", "application/xml", "application/graphql", "multipart/form-data", "APPLICATION/JSON"}

func jsonBody(v any) []byte { b, _ := json.Marshal(v); return b }

// classifyJSONBody is the independent decoder for JSON content types.
func classifyJSONBody(body []byte) string {
	if !utf8.Valid(body) {
		// encoding/json replaces invalid UTF-8 inside strings; whether that is "decodable" is not fixed by the statement
		return "ambiguous"
	}
	trim := bytes.TrimSpace(body)
	if bytes.HasPrefix(trim, []byte("\xef\xbb\xbf")) {
		return "ambiguous"
	}
	var v any
	dec := json.NewDecoder(bytes.NewReader(trim))
	if err := dec.Decode(&v); err != nil {
		return "undecodable"
	}
	if dec.More() {
		return "ambiguous" // trailing data after a complete value
	}
	okReq := func(x any) string {
		m, ok := x.(map[string]any)
		if !ok {
			return "undecodable"
		}
		q, ok := m["query"].(string)
		if !ok || q == "" {
			return "undecodable"
		}
		if vv, has := m["variables"]; has && vv != nil {
			if _, ok := vv.(map[string]any); !ok {
				return "undecodable"
			}
		}
		if on, has := m["operationName"]; has && on != nil {
			if _, ok := on.(string); !ok {
				return "undecodable"
			}
		}
		for k := range m {
			if k != "query" && k != "variables" && k != "operationName" {
				return "ambiguous"
			}
		}
		return "decodable"
	}
	// member names that differ only by case from the standard ones: whether they count is decoder specific
	caseAmbiguous := func(x any) bool {
		m, ok := x.(map[string]any)
		if !ok {
			return false
		}
		for k := range m {
			lk := strings.ToLower(k)
			if (lk == "query" || lk == "variables" || lk == "operationname") && k != "query" && k != "variables" && k != "operationName" {
				return true
			}
		}
		return false
	}
	switch x := v.(type) {
	case map[string]any:
		// duplicate keys are ambiguous: detect by re-encoding length heuristics is unreliable; scan tokens
		if hasDuplicateKeys(trim) || caseAmbiguous(x) {
			return "ambiguous"
		}
		return okReq(x)
	case []any:
		if hasDuplicateKeys(trim) {
			return "ambiguous"
		}
		res := "decodable"
		for _, e := range x {
			if caseAmbiguous(e) {
				return "ambiguous"
			}
			switch okReq(e) {
			case "undecodable":
				return "undecodable"
			case "ambiguous":
				res = "ambiguous"
			}
		}
		return res
	}
	return "undecodable"
}

func hasDuplicateKeys(b []byte) bool {
	dec := json.NewDecoder(bytes.NewReader(b))
	type frame struct {
		obj  bool
		keys map[string]bool
		key  bool
	}
	var st []*frame
	for {
		t, err := dec.Token()
		if err != nil {
			return false
		}
		switch x := t.(type) {
		case json.Delim:
			switch x {
			case '{':
				st = append(st, &frame{obj: true, keys: map[string]bool{}, key: true})
				continue
			case '[':
				st = append(st, &frame{})
				continue
			default:
				st = st[:len(st)-1]
			}
		case string:
			if len(st) > 0 && st[len(st)-1].obj && st[len(st)-1].key {
				f := st[len(st)-1]
				if f.keys[x] {
					return true
				}
				f.keys[x] = true
				f.key = false
				continue
			}
		}
		if len(st) > 0 && st[len(st)-1].obj {
			st[len(st)-1].key = true
		}
	}
}

type mpPart struct {
	name, filename string
	data           []byte
}

func buildMultipart(parts []mpPart) (string, []byte) {
	var b bytes.Buffer
	w := multipart.NewWriter(&b)
	for _, p := range parts {
		h := textproto.MIMEHeader{}
		if p.filename != "" {
			// quoted-string escaping as mime/multipart does it (not Go's %q, which spells non-printable runes as \uXXXX)
			esc := strings.NewReplacer("\\", "\\\\", `"`, "\\\"")
			h.Set("Content-Disposition", `form-data; name="`+esc.Replace(p.name)+`"; filename="`+esc.Replace(p.filename)+`"`)
			h.Set("Content-Type", "application/octet-stream")
		} else {
			h.Set("Content-Disposition", fmt.Sprintf(`form-data; name=%q`, p.name))
		}
		pw, _ := w.CreatePart(h)
		pw.Write(p.data)
	}
	w.Close()
	return w.FormDataContentType(), b.Bytes()
}

func (p c07) Gen(c *run.Ctx, idx int) (json.RawMessage, error) {
	_, o := p.per(c)
	uidx := idx / o
	cu, err := universe(c.Seed, "corner", uidx, cornerProfile)
	if err != nil {
		return nil, err
	}
	r := rng(c.Seed, "c07/req", idx)
	prof := coreOpProfile()
	prof.Depth = 2
	canary := genCoreOp(rng(c.Seed, "c07/canary", uidx), cu.mono, prof)
	if canary == nil {
		return nil, nil
	}
	cs := c07Case{U: cu.spec, Canary: *canary}
	switch idx % 4 {
	case 1:
		cs.Cfg.Hint = true
	case 2:
		cs.Cfg.Planner, cs.Cfg.TTLms = "cached", 3600000
	case 3:
		cs.Cfg.Planner, cs.Cfg.TTLms, cs.Cfg.Hint, cs.Cfg.Merger = "cached", 3600000, true, "sanitize"
	}
	validOp := func() *gen.Op {
		pr := gen.DefaultOpProfile()
		pr.Depth = 2 + r.Intn(3)
		pr.Pool = cu.spec.Data.Pool
		if r.Intn(4) == 0 {
			pr.ForceNodeRoot, pr.PNodeSecond = true, 0.5
		}
		// string literals with quotes, backslashes, control characters, non-ASCII text, line breaks
		pr.HostileStrings = r.Intn(3) == 0
		return genValidOp(r, cu.mono, pr)
	}
	goodBody := func() map[string]any {
		op := validOp()
		if op == nil {
			return map[string]any{"query": "{ __typename }"}
		}
		m := map[string]any{"query": op.Query}
		if op.Variables != nil {
			m["variables"] = op.Variables
		}
		if op.OperationName != "" {
			m["operationName"] = op.OperationName
		}
		return m
	}
	cs.ContentType = "application/json"
	switch cls := r.Intn(4); cls {
	case 0: // byte level
		cs.ContentType = pick(r, c07ContentTypes)
		base := jsonBody(goodBody())
		switch r.Intn(10) {
		case 0:
			n := r.Intn(200)
			b := make([]byte, n)
			r.Read(b)
			cs.BodyB64, cs.Class = b, "random-bytes"
		case 1:
			cs.BodyB64, cs.Class = base[:r.Intn(len(base))], "truncated-json"
		case 2:
			cs.BodyB64, cs.Class = append(append([]byte{}, base...), base...), "duplicated-json"
		case 3:
			d := 50 + r.Intn(5000)
			cs.BodyB64, cs.Class = []byte(strings.Repeat("[", d)+strings.Repeat("]", d*r.Intn(2))), "deep-nesting"
		case 4:
			cs.BodyB64, cs.Class = []byte(`{"query":"{ __typename }","variables":{"n":1e999999,"m":`+strings.Repeat("9", 400)+`}}`), "huge-numbers"
		case 5:
			cs.BodyB64, cs.Class = append([]byte(`{"query":"{ a\xff\xfe }"`), '}'), "invalid-utf8"
		case 6:
			cs.BodyB64, cs.Class = append([]byte("\xef\xbb\xbf"), base...), "bom-prefix"
		case 7:
			cs.BodyB64, cs.Class = append([]byte(" \n\t\r "), base...), "whitespace-prefix"
		case 8:
			cs.BodyB64, cs.Class = nil, "empty-body"
			if r.Intn(2) == 0 {
				cs.BodyB64, cs.Class = []byte(pick(r, []string{" ", "\n", "\t\r\n  ", "    \n\n"})), "whitespace-only-body"
			}
		default:
			cs.BodyB64, cs.Class = base, "good-body-any-content-type"
		}
		if cs.ContentType == "multipart/form-data" && r.Intn(2) == 0 {
			cs.ContentType = "multipart/form-data; boundary=xyz"
		}
	case 1: // JSON shapes
		shapes := []any{nil, true, 1, 1.5, "str", []any{}, []any{nil}, []any{1}, []any{[]any{}}, []any{[]any{goodBody()}}, map[string]any{},
			map[string]any{"query": 1}, map[string]any{"query": nil}, map[string]any{"query": ""}, map[string]any{"query": []any{"{x}"}},
			map[string]any{"query": "{ __typename }", "variables": []any{}}, map[string]any{"query": "{ __typename }", "variables": "str"},
			map[string]any{"query": "{ __typename }", "variables": 3}, map[string]any{"query": "{ __typename }", "operationName": 1},
			map[string]any{"query": "{ __typename }", "operationName": map[string]any{}}, map[string]any{"query": "{ __typename }", "extensions": map[string]any{"a": 1}},
			[]any{goodBody(), nil}, []any{goodBody(), 1}, []any{goodBody(), map[string]any{}}, []any{goodBody(), map[string]any{"query": ""}}, []any{nil, goodBody()},
			[]any{goodBody(), goodBody()}, []any{goodBody(), map[string]any{"query": "{ nope }"}, goodBody()}, map[string]any{"Query": "{ __typename }"},
			[]any{map[string]any{"query": "{ __typename }", "variables": []any{1}}},
			[]any{goodBody(), map[string]any{"query": "query A { __typename } query B { __typename }"}, goodBody()},
			[]any{goodBody(), goodBody(), map[string]any{"query": "query A { __typename }", "operationName": "Nope"}},
			[]any{map[string]any{"query": "query A { __typename } query B { __typename }"}, goodBody()},
			[]any{goodBody(), map[string]any{"query": "{ __typename"}, map[string]any{"query": "query A { __typename } query B { __typename }", "operationName": "C"}, goodBody()},
		}
		s := pick(r, shapes)
		cs.BodyB64 = jsonBody(s)
		cs.Class = "json-shape"
		if r.Intn(6) == 0 {
			cs.BodyB64 = []byte(`{"query":"{ __typename }","query":"{ nope }"}`)
			cs.Class = "json-duplicate-keys"
		}
		cs.ContentType = pick(r, []string{"application/json", "text/plain", ""})
	case 2: // multipart
		cs.Class = "multipart"
		ops := `{"query":"mutation($f: Upload) { __typename }","variables":{"f":null,"fs":[null,null],"in":{"f":null},"s":"str","n":1}}`
		batchOps := `[` + ops + `,` + ops + `]`
		single := r.Intn(2) == 0
		paths := []string{"variables.f", "variables.fs.0", "variables.fs.1", "variables.in.f", "", "variables", "variables.", "0", "1", "0.variables.f", "1.variables.fs.1", "5.variables.f", "-1.variables.f",
			"variables.fs.-1", "variables.fs.x", "variables.fs.99", "variables.fs", "variables.s", "variables.s.x", "variables.n.0", "variables.missing", "variables.in.missing", "x.variables.f", "variables..f", "0.", ".", "0.variables", "variables.fs.0.1"}
		var parts []mpPart
		mapv := map[string]any{}
		nfiles := 1 + r.Intn(2)
		for i := 0; i < nfiles; i++ {
			var ps []any
			for j := 0; j <= r.Intn(2); j++ {
				ps = append(ps, pick(r, paths))
			}
			mapv[fmt.Sprint(i)] = ps
		}
		o := ops
		if !single {
			o = batchOps
		}
		variant := r.Intn(12)
		if variant != 0 {
			parts = append(parts, mpPart{name: "operations", data: []byte(o)})
		}
		switch variant {
		case 1: // no map
		case 2:
			parts = append(parts, mpPart{name: "map", data: []byte(`[]`)})
		case 3:
			parts = append(parts, mpPart{name: "map", data: []byte(`{"0": "variables.f"}`)})
		case 4:
			parts = append(parts, mpPart{name: "map", data: []byte(`{"0": [1]}`)})
		case 5:
			parts = append(parts, mpPart{name: "map", data: []byte(`{`)})
		case 6:
			parts = append(parts, mpPart{name: "map", data: []byte(`{}`)})
		default:
			parts = append(parts, mpPart{name: "map", data: jsonBody(mapv)})
		}
		for i := 0; i < nfiles; i++ {
			if variant == 7 && i == 0 {
				continue // file part missing
			}
			parts = append(parts, mpPart{name: fmt.Sprint(i), filename: fmt.Sprintf("f%d.txt", i), data: []byte("file-content-" + fmt.Sprint(i))})
		}
		if variant == 8 {
			parts[0].data = []byte(`{"query": 5}`)
		}
		if variant == 9 {
			parts[0].data = []byte(`[null]`)
		}
		cs.ContentType, cs.BodyB64 = buildMultipart(parts)
	default: // query level
		cs.Class = "query-level"
		ents := []string{}
		for _, pt := range cu.mono.PossibleTypes["Node"] {
			ents = append(ents, pt.Name)
		}
		ent := "Human"
		if len(ents) > 0 {
			ent = pick(r, ents)
		}
		qs := []string{
			`{ __typename }`, `query { a: __typename b: __typename }`, `{ lonely { x } }`, `{ lonely { __typename } }`, `{ lonelies { x ... on Lonely { x } } }`,
			`{ node(id: "` + ent + `_1") { id } }`, `{ node(id: "` + ent + `_1") { __typename } }`, `{ node(id: "` + ent + `_1") { ... on ` + ent + ` { id } } }`, `{ node(id: "nope") { id } }`,
			`{ ... on Query { __typename } }`, `{ ...F } fragment F on Query { __typename }`, `{ __schema { queryType { name } } __typename }`,
			`{ __type(name: "Query") { name } }`, `query($n: String!) { __type(name: $n) { name } }`, `{ __schema { types { name fields { name } } } ` + firstScalarRoot(cu.mono) + ` }`,
			`query A { __typename } query B { __typename }`, `query A { __typename }`, `{ nope }`, `{ __typename`, `query($v: Int) { __typename }`, `{ ...Missing }`,
			`fragment X on Query { ...X } { ...X }`, `mutation { __typename }`, `subscription { __typename }`, `{ __typename @skip(if: true) }`, `{ __typename @include(if: $undefined) }`,
			`{ a: __typename @skip }`,
			`query($d: Boolean) { __type(name: "Query") { fields(includeDeprecated: $d) { name } } }`,
			`query($d: Boolean) { __schema { types { enumValues(includeDeprecated: $d) { name } fields(includeDeprecated: $d) { name } } } }`,
			`{ __type(name: "Query") { fields(includeDeprecated: null) { name } } }`,
			`query($d: Boolean = true) { __type(name: "Color") { enumValues(includeDeprecated: $d) { name } } }`,
			`{ __type(name: "Nope") { name } }`, `{ __type { name } }`, `query($n: String) { __type(name: $n) { name kind } }`, strings.Repeat(`{ ...on Query `, 30) + `{ __typename }` + strings.Repeat(` }`, 30),
		}
		q := pick(r, qs)
		if r.Intn(3) == 0 {
			if op := validOp(); op != nil {
				q = op.Query
			}
		}
		m := map[string]any{"query": q}
		switch r.Intn(5) {
		case 0:
			m["operationName"] = "Nope"
		case 1:
			m["operationName"] = "A"
		case 2:
			m["variables"] = map[string]any{"n": "Query", "v": "notint"}
		case 3:
			m["variables"] = map[string]any{"d": pick(r, []any{nil, "yes", 1, true, false, []any{}}), "n": pick(r, []any{nil, 5, "Query"})}
		}
		cs.BodyB64 = jsonBody(m)
	}
	return mustJSON(cs), nil
}

func firstScalarRoot(s *ast.Schema) string {
	for _, f := range s.Query.Fields {
		if strings.HasPrefix(f.Name, "__") || f.Name == "node" {
			continue
		}
		d := s.Types[f.Type.Name()]
		req := false
		for _, a := range f.Arguments {
			if a.Type.NonNull && a.DefaultValue == nil {
				req = true
			}
		}
		if d != nil && (d.Kind == ast.Scalar || d.Kind == ast.Enum) && !req {
			return f.Name
		}
	}
	return "__typename"
}

// classifyMultipart is the independent decoder for multipart bodies (GraphQL multipart request spec).
func classifyMultipart(contentType string, body []byte) (string, []map[string]any) {
	_, params, ok := strings.Cut(contentType, "boundary=")
	if !ok {
		return "undecodable", nil
	}
	boundary := strings.Trim(params, `"`)
	mr := multipart.NewReader(bytes.NewReader(body), boundary)
	form, err := mr.ReadForm(1 << 20)
	if err != nil {
		return "undecodable", nil
	}
	ops, ok := form.Value["operations"]
	if !ok || len(ops) == 0 {
		return "undecodable", nil
	}
	if c := classifyJSONBody([]byte(ops[0])); c != "decodable" {
		if c == "ambiguous" {
			return "ambiguous", nil
		}
		return "undecodable", nil
	}
	mp, ok := form.Value["map"]
	if !ok || len(mp) == 0 {
		return "undecodable", nil
	}
	var m map[string][]string
	if err := json.Unmarshal([]byte(mp[0]), &m); err != nil || len(m) == 0 {
		return "undecodable", nil
	}
	var v any
	json.Unmarshal([]byte(ops[0]), &v)
	batch, isBatch := v.([]any)
	for key, paths := range m {
		if _, ok := form.File[key]; !ok {
			return "undecodable", nil
		}
		for _, p := range paths {
			segs := strings.Split(p, ".")
			var cur any = v
			if isBatch {
				var i int
				if _, err := fmt.Sscanf(segs[0], "%d", &i); err != nil || fmt.Sprint(i) != segs[0] || i < 0 || i >= len(batch) {
					return "undecodable", nil
				}
				cur = batch[i]
				segs = segs[1:]
			}
			if len(segs) < 2 || segs[0] != "variables" {
				return "undecodable", nil
			}
			for si, sg := range segs {
				switch c := cur.(type) {
				case map[string]any:
					nv, ok := c[sg]
					if !ok {
						return "undecodable", nil
					}
					cur = nv
				case []any:
					var i int
					if _, err := fmt.Sscanf(sg, "%d", &i); err != nil || fmt.Sprint(i) != sg || i < 0 || i >= len(c) {
						return "undecodable", nil
					}
					cur = c[i]
				default:
					return "undecodable", nil
				}
				if si == len(segs)-1 && cur != nil {
					return "undecodable", nil // the placeholder must be null
				}
			}
		}
	}
	// the same path bound twice -> second binding hits a non-null value: treat as ambiguous (order of map iteration)
	seen := map[string]bool{}
	for _, paths := range m {
		for _, p := range paths {
			if seen[p] {
				return "ambiguous", nil
			}
			seen[p] = true
		}
	}
	return "decodable", nil
}

func (p c07) Exec(c *run.Ctx, idx int, raw json.RawMessage) []run.Result {
	var sp c07Case
	if err := json.Unmarshal(raw, &sp); err != nil {
		return []run.Result{{Verdict: "broken", Message: err.Error()}}
	}
	res := run.Result{Verdict: run.Held, Counters: map[string]int{}, NonTrivial: true}
	r, err := rig.New(sp.U, sp.Cfg)
	if r != nil {
		defer r.Close()
	}
	if err != nil {
		res.Verdict = run.Skip
		res.Counters["setup_failed"] = 1
		res.Message = err.Error()
		return []run.Result{res}
	}
	body := sp.BodyB64
	if sp.Cfg.Planner == "cached" {
		// first delivery fills the plan cache (also with whatever a failed planning leaves behind)
		warm := make(chan *rig.HTTPResult, 1)
		go func() { warm <- r.Do(sp.ContentType, body) }()
		select {
		case w := <-warm:
			if w.Panic != nil {
				res.Verdict, res.Symptom, res.Message = run.Violated, "handler-panic: "+errTemplate(fmt.Sprint(w.Panic)), fmt.Sprint(w.Panic)+"\n"+w.Stack
				return []run.Result{res}
			}
		case <-time.After(60 * time.Second):
			res.Verdict, res.Symptom, res.Message = run.Violated, "handler-did-not-return", "no response within 60s (in-memory services)"
			return []run.Result{res}
		}
		res.Counters["sent_twice_through_plan_cache"] = 1
	}
	ctBase := strings.TrimSpace(strings.SplitN(sp.ContentType, ";", 2)[0])
	var expect string
	switch ctBase {
	case "application/json", "text/plain", "":
		expect = classifyJSONBody(body)
	case "multipart/form-data":
		expect, _ = classifyMultipart(sp.ContentType, body)
	default:
		expect = "undecodable"
	}
	tags := map[string]bool{"class:" + sp.Class: true, "ct:" + ctBase: true, "expect:" + expect: true}
	res.Tags = sortedKeys(tags)

	var viol []violation
	type outcome struct{ hr *rig.HTTPResult }
	done := make(chan *rig.HTTPResult, 1)
	go func() { done <- r.Do(sp.ContentType, body) }()
	var hr *rig.HTTPResult
	select {
	case hr = <-done:
	case <-time.After(60 * time.Second):
		res.Verdict, res.Symptom, res.Message = run.Violated, "handler-did-not-return", "no response within 60s (in-memory services)"
		return []run.Result{res}
	}
	outcomeClass := fmt.Sprintf("status-%d", hr.Status)
	if hr.Panic != nil {
		outcomeClass = "panic"
		viol = append(viol, violation{"handler-panic: " + errTemplate(fmt.Sprint(hr.Panic)), fmt.Sprintf("%v\n%s", hr.Panic, hr.Stack)})
	} else {
		// well-formedness
		var v any
		if err := json.Unmarshal(hr.Body, &v); err != nil {
			viol = append(viol, violation{"response-not-json", fmt.Sprintf("status %d body %q", hr.Status, head(string(hr.Body), 300))})
		} else {
			checkElem := func(e any, where string) {
				m, ok := e.(map[string]any)
				if !ok {
					viol = append(viol, violation{"response-element-not-an-object", fmt.Sprintf("%s is %s in %s", where, head(jsonStr(e), 100), head(string(hr.Body), 300))})
					return
				}
				_, hd := m["data"]
				_, he := m["errors"]
				if !hd && !he {
					viol = append(viol, violation{"response-element-without-data-or-errors", fmt.Sprintf("%s: %s", where, head(jsonStr(e), 200))})
				}
				if he {
					if l, ok := m["errors"].([]any); !ok || len(l) == 0 {
						if m["errors"] != nil {
							viol = append(viol, violation{"errors-not-a-non-empty-list", head(jsonStr(m["errors"]), 200)})
						}
					}
				}
			}
			switch x := v.(type) {
			case []any:
				for i, e := range x {
					checkElem(e, fmt.Sprintf("element %d", i))
				}
			default:
				checkElem(v, "response")
			}
			// status oracle
			switch expect {
			case "undecodable":
				if hr.Status != 422 {
					viol = append(viol, violation{fmt.Sprintf("undecodable-request-answered-%d", hr.Status), fmt.Sprintf("content-type %q body %q -> status %d body %s", sp.ContentType, head(string(body), 200), hr.Status, head(string(hr.Body), 300))})
				}
			case "decodable":
				if hr.Status != 200 {
					viol = append(viol, violation{fmt.Sprintf("decodable-request-answered-%d", hr.Status), fmt.Sprintf("content-type %q body %q -> status %d body %s", sp.ContentType, head(string(body), 300), hr.Status, head(string(hr.Body), 300))})
				}
			}
			// invalid operations: errors and data:null
			if expect == "decodable" && hr.Status == 200 && (ctBase != "multipart/form-data") {
				var reqs []map[string]any
				var one map[string]any
				if json.Unmarshal(bytes.TrimSpace(body), &one) == nil && one != nil {
					reqs = []map[string]any{one}
				} else {
					json.Unmarshal(bytes.TrimSpace(body), &reqs)
				}
				var elems []any
				if l, ok := v.([]any); ok {
					elems = l
				} else {
					elems = []any{v}
				}
				if len(elems) != len(reqs) {
					viol = append(viol, violation{"response-count-differs-from-request-count", fmt.Sprintf("%d requests, %d results", len(reqs), len(elems))})
				} else {
					for i, rq := range reqs {
						q, _ := rq["query"].(string)
						on, _ := rq["operationName"].(string)
						_, gerr := gqlparser.LoadQuery(r.Merged.Schema, q)
						invalid := gerr != nil
						if !invalid {
							doc, _ := gqlparser.LoadQuery(r.Merged.Schema, q)
							if on != "" && doc.Operations.ForName(on) == nil {
								invalid = true
							}
							if on == "" && len(doc.Operations) != 1 {
								invalid = true
							}
						}
						if invalid {
							res.Counters["invalid_operations"]++
							m, _ := elems[i].(map[string]any)
							el, _ := m["errors"].([]any)
							if m != nil && (len(el) == 0 || m["data"] != nil) {
								viol = append(viol, violation{"invalid-operation-not-rejected", fmt.Sprintf("operation %q (operationName %q) is invalid against the gateway schema but got %s", head(q, 200), on, head(jsonStr(m), 300))})
							}
						}
					}
				}
			}
		}
	}
	tagsOut := outcomeClass
	res.Key = hashStr(ctBase, sp.Class, tagsOut, string(body))
	res.Counters["class:"+sp.Class] = 1
	res.Counters["outcome:"+outcomeClass] = 1
	res.Counters["expect:"+expect] = 1

	// canary
	ref := engine.Execute(r.Mono, engine.Request{Query: sp.Canary.Query, Variables: sp.Canary.Variables, OperationName: sp.Canary.OperationName}, r.Data, "")
	if len(ref.Errors) == 0 {
		kf := map[string]bool{}
		refData := rig.Roundtrip(ref.Data)
		refFacts(refData, kf)
		if !kf["ref-null-elem"] {
			ch := r.Query(&sp.Canary)
			if v := judgeAgainstRef(ch, refData); v != nil {
				viol = append(viol, violation{"canary-after-hostile-request: " + v.symptom, v.msg})
			}
			res.Counters["canaries_checked"] = 1
		}
	}
	if len(viol) == 0 {
		if idx%7 == 0 {
			res.Sample = map[string]any{"class": sp.Class, "content_type": sp.ContentType, "body": head(string(body), 200), "expect": expect, "status": hr.Status, "response": head(string(hr.Body), 200)}
		}
		return []run.Result{res}
	}
	var out []run.Result
	seen := map[string]bool{}
	for _, v := range viol {
		if seen[v.symptom] {
			continue
		}
		seen[v.symptom] = true
		r2 := res
		r2.Verdict, r2.Symptom, r2.Message = run.Violated, v.symptom, v.msg
		if len(out) > 0 {
			r2.Key, r2.NonTrivial, r2.Counters = "", false, nil
		}
		out = append(out, r2)
	}
	return out
}

func (p c07) SpecTags(raw json.RawMessage) []string {
	var sp c07Case
	if json.Unmarshal(raw, &sp) != nil {
		return nil
	}
	return []string{"class:" + sp.Class, "ct:" + strings.TrimSpace(strings.SplitN(sp.ContentType, ";", 2)[0])}
}
