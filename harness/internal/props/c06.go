package props

import (
	"encoding/json"
	"fmt"
	"math/rand"
	"sort"
	"strings"
	"sync"
	"time"

	"verif/harness/internal/fake"
	"verif/harness/internal/gen"
	"verif/harness/internal/rig"
	"verif/harness/internal/run"

	"github.com/vektah/gqlparser/v2"
	"github.com/vektah/gqlparser/v2/ast"
	"github.com/vektah/gqlparser/v2/parser"
)

// kfTags are the structural features behind known C01/C02 findings; "core"
// operations used by the properties that are not about those features avoid them.
var kfTags = []string{
	"f:var-in-directive", "f:explicit-id-with-fragment", "f:explicit-typename-with-fragment", "f:node-root",
	"f:fragment-on-abstract", "f:fragment-with-directive", "f:var-default-unsupplied", "f:interface-level-field",
	"f:member-fragment", "f:composite-key-reused", "f:root-typename", "f:introspection", "f:var-named-id", "f:dup-response-key", "f:alias-id-on-other-field",
}

func coreOpProfile() gen.OpProfile {
	p := gen.DefaultOpProfile()
	p.PDirective, p.PDirVar, p.PNodeRoot, p.PVarDefault = 0.02, 0, 0, 0
	p.PFragment, p.PInline, p.PTypename, p.PMultiOp = 0.04, 0.04, 0.05, 0.1
	return p
}

// genCoreOp generates a valid operation free of the known-finding features.
func genCoreOp(r *rand.Rand, mono *ast.Schema, prof gen.OpProfile) *gen.Op {
	for try := 0; try < 60; try++ {
		op := genValidOp(r, mono, prof)
		if op == nil {
			return nil
		}
		doc, err := gqlparser.LoadQuery(mono, op.Query)
		if err != nil {
			continue
		}
		var od *ast.OperationDefinition
		if op.OperationName != "" {
			od = doc.Operations.ForName(op.OperationName)
		} else if len(doc.Operations) == 1 {
			od = doc.Operations[0]
		}
		if od == nil {
			continue
		}
		tags := map[string]bool{}
		opFacts(mono, doc, od, op.Variables, tags)
		bad := false
		for _, t := range kfTags {
			if t == "f:var-named-id" && prof.PVarNamedID > 0 {
				continue // wanted by this caller
			}
			if tags[t] {
				bad = true
			}
		}
		if !bad {
			return op
		}
	}
	return nil
}

// C06 — each mutation root field reaches its owner exactly once.
type c06 struct{}

type c06Case struct {
	U         rig.UniverseSpec `json:"universe"`
	Cfg       rig.Config       `json:"config"`
	Op        gen.Op           `json:"op"`
	FaultAt   int              `json:"fault_at"` // index into the fault-free downstream call list (-1: none)
	FaultKind string           `json:"fault_kind,omitempty"`
	Repeat    int              `json:"repeat"`              // client requests (same gateway)
	Copies    int              `json:"copies,omitempty"`    // the same mutation sent this many times at once (0: off)
	CopyMode  string           `json:"copy_mode,omitempty"` // "batch": one HTTP batch [m, m, ..]; "clients": concurrent client requests
}

func (c06) ID() string            { return "C06" }
func (c06) Level() string         { return "fault_enumeration" }
func (c06) RaceIsViolation() bool { return false }
func (c06) Rule() string {
	return "cases = generated universe x generated mutation (1-3 root fields, possibly on several services, with cross-service child lookups) x {plain, caching planner (same mutation sent 2-3 times)} x maxBatchSize {1,2,default 3000} x single downstream fault (none | errors / transport error / 500 at each call index of the fault-free run); " +
		"oracle (offline over the downstream event log segment of each client request): every root response key of the mutation occurs in exactly one received request with keyword `mutation`, at the service that declares the field; no other service sees a mutation; every `node`-rooted request has keyword `query`; " +
		"distinct = distinct (universe, mutation, config, fault plan); non-trivial = the mutation needs >= 2 downstream requests"
}
func (c06) Assumptions() []string {
	return []string{"fake services log every request they receive before answering; log segments are delimited by the client call because the handler returns only after all fan-out finished", "fault positions are addressed by per-service call index of a fault-free run of the same case, never by time"}
}
func (p c06) per(c *run.Ctx) (int, int) {
	if c.Tier == "thorough" {
		return 200, 400
	}
	return 12, 150
}
func (p c06) NumCases(c *run.Ctx) int { u, o := p.per(c); return u * o }

func mutProfile(r *rand.Rand) (gen.Profile, gen.DataCfg) {
	p := gen.DefaultProfile()
	p.MaxServices = 4
	p.Mutations = true
	p.SharedRoots = r.Intn(3) == 0
	d := gen.DataCfg{Seed: uint64(r.Int63()), PNull: 0, ListMax: 1 + r.Intn(3), Pool: 2 + r.Intn(3)}
	if r.Intn(3) == 0 {
		p.CommandOnly = 1
	}
	if r.Intn(4) == 0 {
		// many services, many mutation root fields: one operation touches five and more services at one depth
		p.MaxServices, p.MutationRoots = 9, [2]int{6, 8}
	}
	return p, d
}

var c06Faults = []string{"errors", "transport-error", "transport-eof", "transport-unexpected-eof", "transport-reset", "status-500", "errors+data"}

func (p c06) Gen(c *run.Ctx, idx int) (json.RawMessage, error) {
	_, o := p.per(c)
	uidx := idx / o
	cu, err := universe(c.Seed, "mut", uidx, mutProfile)
	if err != nil {
		return nil, err
	}
	if cu.mono.Mutation == nil {
		return nil, nil
	}
	r := rng(c.Seed, "c06/op", idx)
	prof := coreOpProfile()
	prof.Kind = ast.Mutation
	prof.MaxRoots = 3
	if cu.u.K >= 5 {
		prof.MaxRoots = 8
	}
	prof.PAlias = 0.2
	prof.Pool = cu.spec.Data.Pool
	if idx%4 == 3 {
		prof.PVar, prof.PVarNamedID = 0.7, 0.6
	}
	op := genCoreOp(r, cu.mono, prof)
	if op == nil {
		return nil, nil
	}
	if idx%9 == 4 {
		// __typename of the root next to the mutation fields: answered by the gateway, the fields still go to their owners
		if doc, err := gqlparser.LoadQuery(cu.mono, op.Query); err == nil && len(doc.Operations) == 1 && len(doc.Operations[0].SelectionSet) > 0 {
			if f, ok := doc.Operations[0].SelectionSet[0].(*ast.Field); ok && f.Position != nil && f.Position.Start > 0 && f.Position.Start < len(op.Query) {
				q := op.Query[:f.Position.Start] + pick(r, []string{"__typename ", "t0: __typename ", "... on Mutation { __typename } "}) + op.Query[f.Position.Start:]
				if _, err := gqlparser.LoadQuery(cu.mono, q); err == nil {
					op.Query = q
					op.Tags = append(op.Tags, "root-typename")
				}
			}
		}
	}
	cs := c06Case{U: cu.spec, Op: *op, FaultAt: -1, Repeat: 1}
	cs.Cfg.Hint = idx%2 == 1
	switch r.Intn(3) {
	case 1:
		cs.Cfg.MaxBatch = 1
	case 2:
		cs.Cfg.MaxBatch = 2
	}
	if r.Intn(3) == 0 {
		cs.Cfg.Planner, cs.Cfg.TTLms = "cached", 3600000
		cs.Repeat = 2 + r.Intn(2)
	}
	if idx%5 == 2 {
		cs.Copies, cs.CopyMode = 2+r.Intn(2), []string{"batch", "clients"}[r.Intn(2)]
	}
	if r.Intn(2) == 0 {
		cs.FaultAt = r.Intn(8)
		cs.FaultKind = c06Faults[r.Intn(len(c06Faults))]
		if strings.HasPrefix(cs.FaultKind, "transport-") && idx%2 == 0 && cs.Cfg.MaxBatch == 0 {
			cs.Cfg.TCP = true // default queryer factory over a real net/http transport
		}
	}
	return mustJSON(cs), nil
}

type rootKey struct{ key, name string }

// mutationRoots lists the (response key, field name) pairs at the root of the client mutation.
func mutationRoots(s *ast.Schema, op *gen.Op) ([]rootKey, error) {
	doc, err := gqlparser.LoadQuery(s, op.Query)
	if err != nil {
		return nil, err
	}
	var od *ast.OperationDefinition
	if op.OperationName != "" {
		od = doc.Operations.ForName(op.OperationName)
	} else if len(doc.Operations) == 1 {
		od = doc.Operations[0]
	}
	if od == nil || od.Operation != ast.Mutation {
		return nil, fmt.Errorf("not a mutation")
	}
	var out []rootKey
	var flat func(set ast.SelectionSet)
	flat = func(set ast.SelectionSet) {
		for _, sel := range set {
			switch x := sel.(type) {
			case *ast.Field:
				k := x.Alias
				if k == "" {
					k = x.Name
				}
				if x.Name == "__typename" {
					continue // answered by the gateway itself
				}
				out = append(out, rootKey{k, x.Name})
			case *ast.InlineFragment:
				flat(x.SelectionSet)
			case *ast.FragmentSpread:
				flat(x.Definition.SelectionSet)
			}
		}
	}
	flat(od.SelectionSet)
	return out, nil
}

func eventRootKeys(svc *fake.Service, e *fake.Event) []rootKey {
	doc, err := gqlparser.LoadQuery(svc.Schema, e.Query)
	if err != nil || len(doc.Operations) == 0 {
		return nil
	}
	od := doc.Operations[0]
	if e.OpName != "" {
		if o := doc.Operations.ForName(e.OpName); o != nil {
			od = o
		}
	}
	var out []rootKey
	for _, sel := range od.SelectionSet {
		if f, ok := sel.(*ast.Field); ok {
			k := f.Alias
			if k == "" {
				k = f.Name
			}
			out = append(out, rootKey{k, f.Name})
		}
	}
	return out
}

// parseOnlyRoots parses (without validating) and returns the operation keyword and root field names.
func parseOnlyRoots(query, opName string) (string, []string) {
	doc, err := parser.ParseQuery(&ast.Source{Input: query})
	if err != nil || len(doc.Operations) == 0 {
		return "", nil
	}
	od := doc.Operations[0]
	if opName != "" {
		if o := doc.Operations.ForName(opName); o != nil {
			od = o
		}
	}
	var names []string
	for _, sel := range od.SelectionSet {
		if f, ok := sel.(*ast.Field); ok {
			names = append(names, f.Name)
		}
	}
	return string(od.Operation), names
}

// judgeMutationSegment applies the exactly-once oracle to one client request's log segment.
func judgeMutationSegment(r *rig.Rig, roots []rootKey, evs []*fake.Event) []violation {
	return judgeMutationSegmentN(r, roots, evs, 1)
}

// judgeMutationSegmentN: the segment belongs to `copies` client-level executions of the same mutation.
func judgeMutationSegmentN(r *rig.Rig, roots []rootKey, evs []*fake.Event, copies int) []violation {
	var out []violation
	svcByName := map[string]*fake.Service{}
	for _, s := range r.Services {
		svcByName[s.Name] = s
	}
	owner := func(field string) string {
		for _, s := range r.Services {
			if s.Schema.Mutation != nil && s.Schema.Mutation.Fields.ForName(field) != nil {
				return s.Name
			}
		}
		return ""
	}
	count := map[rootKey][]string{}
	for _, e := range evs {
		if !e.Valid {
			// validity is C02's business, but a lookup or a client root field that went out in a request the
			// service cannot even accept still tells which keyword the gateway used: parse without validating
			if kw, names := parseOnlyRoots(e.Query, e.OpName); kw == "mutation" {
				for _, n := range names {
					if n == "node" {
						out = append(out, violation{"node-lookup-sent-as-mutation", fmt.Sprintf("service %s received a `node` lookup with keyword mutation (and rejected it): %s", e.Service, strings.Join(strings.Fields(e.Query), " "))})
					}
				}
			}
			continue
		}
		keys := eventRootKeys(svcByName[e.Service], e)
		isNode := false
		for _, k := range keys {
			if k.name == "node" {
				isNode = true
			}
		}
		if isNode && e.OpKw != "query" {
			out = append(out, violation{"node-lookup-sent-as-" + e.OpKw, fmt.Sprintf("service %s received a `node` lookup with keyword %s: %s", e.Service, e.OpKw, strings.Join(strings.Fields(e.Query), " "))})
		}
		if e.OpKw == "mutation" {
			for _, k := range keys {
				count[k] = append(count[k], e.Service)
			}
		}
	}
	for _, rk := range roots {
		if strings.HasPrefix(rk.name, "__") {
			continue
		}
		got := count[rk]
		own := owner(rk.name)
		switch {
		case len(got) == 0:
			out = append(out, violation{"mutation-root-not-delivered", fmt.Sprintf("root field %s (key %s, owner %s) reached no service", rk.name, rk.key, own)})
		case len(got) > copies:
			out = append(out, violation{"mutation-root-delivered-more-than-once", fmt.Sprintf("root field %s (key %s) was received %d times for %d client execution(s): %v", rk.name, rk.key, len(got), copies, got)})
		case len(got) < copies:
			out = append(out, violation{"mutation-root-delivered-fewer-times-than-sent", fmt.Sprintf("root field %s (key %s) was sent by %d concurrent client executions and received %d time(s): %v", rk.name, rk.key, copies, len(got), got)})
		case got[0] != own:
			out = append(out, violation{"mutation-root-delivered-to-wrong-service", fmt.Sprintf("root field %s (key %s) owner %s, received by %s", rk.name, rk.key, own, got[0])})
		}
		delete(count, rk)
	}
	for rk, svcs := range count {
		out = append(out, violation{"unrequested-mutation-delivered", fmt.Sprintf("services %v received mutation root %s (key %s) which the client did not select", svcs, rk.name, rk.key)})
	}
	return out
}

type callRef struct {
	svc     string
	svcCall int
}

func (p c06) Exec(c *run.Ctx, idx int, raw json.RawMessage) []run.Result {
	var sp c06Case
	if err := json.Unmarshal(raw, &sp); err != nil {
		return []run.Result{{Verdict: "broken", Message: err.Error()}}
	}
	res := run.Result{Verdict: run.Held, Counters: map[string]int{}}
	tags := map[string]bool{}
	for _, t := range cfgTags(sp.Cfg) {
		tags[t] = true
	}
	var viol []violation
	runOnce := func(faultAt *callRef, kind string) (calls []callRef, ok bool) {
		r, err := rig.New(sp.U, sp.Cfg)
		if r != nil {
			defer r.Close()
		}
		if err != nil {
			return nil, false
		}
		roots, rerr := mutationRoots(r.Merged.Schema, &sp.Op)
		if rerr != nil {
			return nil, false
		}
		if sp.Cfg.TCP && faultAt != nil {
			// over a real net/http transport: the mutation once without fault, so that the faulted call finds a kept-alive
			// connection (net/http replays some requests by itself when such a connection dies: a mutation must not be one)
			r.Query(&sp.Op)
			for _, s := range r.Services {
				s.ResetCalls()
			}
			tags["over-tcp-kept-alive-connection"] = true
		}
		for _, s := range r.Services {
			s := s
			s.Before = func(cl *fake.Call) {}
			s.FaultFn = func(cl *fake.Call) *fake.Fault {
				if faultAt != nil && cl.Service.Name == faultAt.svc && cl.SvcCall == faultAt.svcCall {
					return &fake.Fault{Kind: kind, Pos: 0}
				}
				return nil
			}
		}
		if sp.Cfg.Planner == "cached" {
			// history: the same selection sent as a *query* first (valid when the root names are shared)
			q := sp.Op
			q.Query = strings.Replace(q.Query, "mutation", "query", 1)
			if _, e := gqlparser.LoadQuery(r.Merged.Schema, q.Query); e == nil && q.Query != sp.Op.Query {
				r.Query(&q)
				res.Counters["cache_warmed_with_query_twin"]++
				tags["query-twin-first"] = true
			}
		}
		for rep := 0; rep < sp.Repeat; rep++ {
			mark := r.Log.Len()
			calls0 := len(calls)
			hr := r.Query(&sp.Op)
			if hr.Panic != nil {
				viol = append(viol, violation{"handler-panic: " + errTemplate(fmt.Sprint(hr.Panic)), fmt.Sprint(hr.Panic) + "\n" + hr.Stack})
			}
			evs := r.Log.Since(mark)
			seenCall := map[int64]bool{}
			perSvc := map[string]int{}
			for _, e := range evs {
				if !seenCall[e.CallID] {
					seenCall[e.CallID] = true
				}
			}
			// reconstruct per-service call numbers in arrival order
			order := []int64{}
			svcOf := map[int64]string{}
			for _, e := range evs {
				if _, ok := svcOf[e.CallID]; !ok {
					svcOf[e.CallID] = e.Service
					order = append(order, e.CallID)
				}
			}
			sort.Slice(order, func(i, j int) bool { return order[i] < order[j] })
			_ = calls0
			for _, id := range order {
				perSvc[svcOf[id]]++
			}
			for _, v := range judgeMutationSegment(r, roots, evs) {
				if rep > 0 {
					v.symptom = "repeat-request: " + v.symptom
				}
				viol = append(viol, v)
			}
			res.Counters["client_requests"]++
			res.Counters["downstream_requests"] += len(evs)
			if len(evs) >= 2 {
				res.NonTrivial = true
			}
			if rep == 0 {
				// the call list of the first client request, by (service, per-service call number)
				n := map[string]int{}
				for _, id := range order {
					n[svcOf[id]]++
					calls = append(calls, callRef{svcOf[id], n[svcOf[id]]})
				}
			}
		}
		if sp.Copies > 1 && faultAt == nil {
			// the same mutation several times at once: every copy is a client-level execution of its own
			for _, s := range r.Services {
				s.Before = func(cl *fake.Call) { time.Sleep(2 * time.Millisecond) } // keep the requests in flight together
			}
			mark := r.Log.Len()
			one := rig.Body(&sp.Op)
			if sp.CopyMode == "batch" {
				body := []byte("[")
				for i := 0; i < sp.Copies; i++ {
					if i > 0 {
						body = append(body, ',')
					}
					body = append(body, one...)
				}
				body = append(body, ']')
				if hr := r.Do("application/json", body); hr.Panic != nil {
					viol = append(viol, violation{"handler-panic: " + errTemplate(fmt.Sprint(hr.Panic)), fmt.Sprint(hr.Panic) + "\n" + hr.Stack})
				}
			} else {
				var wg sync.WaitGroup
				for i := 0; i < sp.Copies; i++ {
					wg.Add(1)
					go func() { defer wg.Done(); r.Do("application/json", one) }()
				}
				wg.Wait()
			}
			for _, v := range judgeMutationSegmentN(r, roots, r.Log.Since(mark), sp.Copies) {
				v.symptom = "concurrent-copies(" + sp.CopyMode + "): " + v.symptom
				viol = append(viol, v)
			}
			res.Counters["concurrent_copy_runs"]++
			tags["copies:"+sp.CopyMode] = true
		}
		return calls, true
	}
	calls, ok := runOnce(nil, "")
	if !ok {
		res.Verdict = run.Skip
		res.Counters["setup_failed"] = 1
		return []run.Result{res}
	}
	plan := "none"
	if sp.FaultAt >= 0 && len(calls) > 0 {
		target := calls[sp.FaultAt%len(calls)]
		plan = fmt.Sprintf("%s@%s#%d", sp.FaultKind, target.svc, target.svcCall)
		tags["fault:"+sp.FaultKind] = true
		runOnce(&target, sp.FaultKind)
		res.Counters["fault_runs"] = 1
	}
	res.Key = hashStr(specHashOf(sp.U), sp.Op.Query, gen.MarshalVars(sp.Op.Variables), sp.Cfg.String(), plan, fmt.Sprint(sp.Repeat))
	res.Tags = sortedKeys(tags)
	if len(viol) == 0 {
		if res.NonTrivial {
			res.Sample = map[string]any{"mutation": sp.Op.Query, "config": sp.Cfg.String(), "fault": plan, "client_requests": sp.Repeat, "downstream_calls_first_request": len(calls)}
		}
		return []run.Result{res}
	}
	var out []run.Result
	seen := map[string]bool{}
	for _, v := range viol {
		if seen[v.symptom] {
			continue
		}
		seen[v.symptom] = true
		r2 := res
		r2.Verdict, r2.Symptom, r2.Message = run.Violated, v.symptom, v.msg+"\nmutation: "+sp.Op.Query+"\nfault: "+plan+" config: "+sp.Cfg.String()
		if len(out) > 0 {
			r2.Key, r2.NonTrivial, r2.Counters = "", false, nil
		}
		out = append(out, r2)
	}
	return out
}
