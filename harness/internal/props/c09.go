package props

import (
	"encoding/json"
	"fmt"
	"runtime"
	"strings"
	"sync/atomic"
	"time"

	"verif/harness/internal/engine"
	"verif/harness/internal/fake"
	"verif/harness/internal/gen"
	"verif/harness/internal/rig"
	"verif/harness/internal/run"
)

// C09 — downstream failures are contained and reported, never masked.
type c09 struct{}

type c09Case struct {
	U           rig.UniverseSpec `json:"universe"`
	Op          gen.Op           `json:"op"`
	Canary      gen.Op           `json:"canary"`
	CallIdx     int              `json:"call_index"` // index into the fault-free call list
	Kind        string           `json:"fault_kind"`
	Pos         int              `json:"pos"` // 0 first, -2 last, -1 all
	Batch       bool             `json:"batch_with_canary"`
	CanaryFirst bool             `json:"canary_first"`
	Second      int              `json:"second_fault_call"` // -1: none (short sequences: a second fault at another call)
	Kind2       string           `json:"second_fault_kind,omitempty"`
}

func (c09) ID() string                 { return "C09" }
func (c09) Level() string              { return "fault_enumeration" }
func (c09) RaceIsViolation() bool      { return false }
func (c09) Exhaustive(c *run.Ctx) bool { return true }
func (c09) Rule() string {
	return "for each sampled (universe, core operation): the fault-free run's downstream call list is recorded, then EVERY (call index <= 6) x EVERY fault kind (" + strings.Join(fake.FaultKinds, ", ") + ") x element position (first, last, all) is injected one at a time; plus two-fault sequences at different calls; plus a batch [operation, canary] with the fault on the operation's root call; " +
		"monitors: handler returns, no panic / process death, HTTP 200 and well-formed JSON; failure-signal kinds (up to and including a mistyped node) => errors non-empty; provenance: every scalar leaf of `data` equals a leaf of some body a fake service actually sent in this run (injected junk is a unique sentinel); the canary in the same batch and the canary sent afterwards get their reference answers; goroutine count returns to the baseline; " +
		"distinct = distinct (operation, call index, kind, position); non-trivial = the fault actually hit a call (the call index exists); the per-operation single-fault space is enumerated completely"
}
func (c09) Assumptions() []string {
	return []string{"fault positions are addressed by (service, per-service call number) of a fault-free run of the same operation on an identical rig", "`data: null` without errors and `node: null` are not counted as failure signals (the statement lists them as shape contradictions / not found)"}
}

const c09Calls = 6

var c09Pos = []int{0, -2, -1}

func (p c09) opsPerU(c *run.Ctx) (int, int) {
	if c.Tier == "thorough" {
		return 40, 12
	}
	return 5, 4
}

func (p c09) perOp() int {
	return c09Calls*len(fake.FaultKinds)*len(c09Pos) + 40 + len(fake.FaultKinds)
}

func (p c09) NumCases(c *run.Ctx) int  { u, o := p.opsPerU(c); return u * o * p.perOp() }
func (p c09) BatchSize(c *run.Ctx) int { return 150 }

func (p c09) Gen(c *run.Ctx, idx int) (json.RawMessage, error) {
	_, o := p.opsPerU(c)
	per := p.perOp()
	opIdx := idx / per
	slot := idx % per
	uidx := opIdx / o
	cu, err := universe(c.Seed, "batch", uidx, batchProfile)
	if err != nil {
		return nil, err
	}
	r := rng(c.Seed, "c09/op", opIdx)
	prof := coreOpProfile()
	prof.Depth, prof.Width, prof.ForceName, prof.PMultiOp = 3, 3, "FaultedOp", 0
	var op *gen.Op
	for try := 0; try < 20 && op == nil; try++ {
		cand := genCoreOp(r, cu.mono, prof)
		if cand != nil && strings.Count(cand.Query, "{") >= 3 {
			op = cand
		}
	}
	if op == nil {
		return nil, nil
	}
	cprof := coreOpProfile()
	cprof.Depth, cprof.ForceName, cprof.PMultiOp = 2, "CanaryOp", 0
	canary := genCoreOp(rng(c.Seed, "c09/canary", uidx), cu.mono, cprof)
	if canary == nil {
		return nil, nil
	}
	cs := c09Case{U: cu.spec, Op: *op, Canary: *canary, Second: -1}
	single := c09Calls * len(fake.FaultKinds) * len(c09Pos)
	switch {
	case slot < single:
		cs.CallIdx = slot / (len(fake.FaultKinds) * len(c09Pos))
		rest := slot % (len(fake.FaultKinds) * len(c09Pos))
		cs.Kind = fake.FaultKinds[rest/len(c09Pos)]
		cs.Pos = c09Pos[rest%len(c09Pos)]
	case slot < single+40:
		rr := rng(c.Seed, "c09/seq", idx)
		cs.CallIdx = rr.Intn(3)
		cs.Kind = fake.FaultKinds[rr.Intn(len(fake.FaultKinds))]
		cs.Pos = c09Pos[rr.Intn(3)]
		cs.Second = 1 + rr.Intn(4)
		cs.Kind2 = fake.FaultKinds[rr.Intn(len(fake.FaultKinds))]
	default:
		cs.Batch = true
		cs.CanaryFirst = (slot-single-40+opIdx)%2 == 0
		cs.CallIdx = 0
		cs.Kind = fake.FaultKinds[slot-single-40]
		cs.Pos = -1
	}
	return mustJSON(cs), nil
}

type c09Call struct {
	svc  string
	n    int
	sz   int
	node bool // a follow-up `node(id: $id)` lookup (not a root step)
}

func listCalls(evs []*fake.Event) []c09Call {
	var calls []c09Call
	seen := map[int64]bool{}
	per := map[string]int{}
	for _, e := range evs {
		if seen[e.CallID] {
			continue
		}
		seen[e.CallID] = true
		per[e.Service]++
		calls = append(calls, c09Call{e.Service, per[e.Service], e.BatchSize, strings.Contains(e.Query, "node(id: $id)")})
	}
	return calls
}

func settleGoroutines(base int) int {
	n := runtime.NumGoroutine()
	for i := 0; i < 60 && n > base; i++ {
		time.Sleep(5 * time.Millisecond)
		n = runtime.NumGoroutine()
	}
	return n
}

func (p c09) Exec(c *run.Ctx, idx int, raw json.RawMessage) []run.Result {
	var sp c09Case
	if err := json.Unmarshal(raw, &sp); err != nil {
		return []run.Result{{Verdict: "broken", Message: err.Error()}}
	}
	res := run.Result{Verdict: run.Held, Counters: map[string]int{}}
	dry, err := rig.New(sp.U, rig.Config{})
	if dry != nil {
		defer dry.Close()
	}
	if err != nil {
		res.Verdict = run.Skip
		res.Counters["setup_failed"] = 1
		return []run.Result{res}
	}
	mark := dry.Log.Len()
	dhr := dry.Query(&sp.Op)
	calls := listCalls(dry.Log.Since(mark))
	dg, _ := rig.DecodeSingle(dhr.Body)
	if dg == nil || len(dg.Errors) > 0 {
		res.Verdict = run.Skip
		res.Counters["fault_free_run_has_errors"] = 1
		return []run.Result{res}
	}
	if sp.CallIdx >= len(calls) {
		res.Verdict = run.Skip
		res.Counters["call_index_beyond_plan"] = 1
		return []run.Result{res}
	}
	target := calls[sp.CallIdx]
	var target2 *c09Call
	if sp.Second >= 0 && sp.Second < len(calls) && sp.Second != sp.CallIdx {
		t := calls[sp.Second]
		target2 = &t
	}
	// canary reference
	cref := engine.Execute(dry.Mono, engine.Request{Query: sp.Canary.Query, Variables: sp.Canary.Variables, OperationName: sp.Canary.OperationName}, dry.Data, "")
	canaryOK := len(cref.Errors) == 0
	var crefData any
	if canaryOK {
		crefData = rig.Roundtrip(cref.Data)
		kf := map[string]bool{}
		refFacts(crefData, kf)
		if kf["ref-null-elem"] {
			canaryOK = false
		}
	}

	// transport faults do not depend on an element position: the three position slots are used for the three ways the
	// call can travel - in memory; over a real net/http transport on a fresh connection; over one that an earlier
	// request left in the keep-alive pool (net/http replays some requests by itself when such a connection dies)
	overTCP := strings.HasPrefix(sp.Kind, "transport-") && !sp.Batch && sp.Second < 0 && sp.Pos != 0
	warm := overTCP && sp.Pos == -2
	base := runtime.NumGoroutine()
	r, err := rig.New(sp.U, rig.Config{TCP: overTCP})
	if r != nil {
		defer r.Close()
	}
	if err != nil {
		res.Verdict = run.Skip
		return []run.Result{res}
	}
	if warm {
		// the judged operation itself, fault free: afterwards every service it calls has an idle connection
		r.Query(&sp.Op)
		for _, s := range r.Services {
			s.ResetCalls()
		}
		base = runtime.NumGoroutine()
	}
	var hit32, armed32 int32 = 0, 1 // written by service goroutines when the calls travel over TCP
	var stormHits32 int32
	var storm32 int32 // 1: every call to the target service fails (a service that is down for a while)
	for _, s := range r.Services {
		s.FaultFn = func(cl *fake.Call) *fake.Fault {
			if atomic.LoadInt32(&storm32) == 1 {
				if cl.Service.Name == target.svc {
					atomic.AddInt32(&stormHits32, 1)
					return &fake.Fault{Kind: "status-500", Pos: -1}
				}
				return nil
			}
			if atomic.LoadInt32(&armed32) == 0 {
				return nil
			}
			if sp.Batch {
				// by content: the root call of the faulted operation
				for _, rq := range cl.Requests {
					if rq.OperationName == "FaultedOp" && cl.Service.Name == target.svc {
						atomic.AddInt32(&hit32, 1)
						return &fake.Fault{Kind: sp.Kind, Pos: -1}
					}
				}
				return nil
			}
			if cl.Service.Name == target.svc && cl.SvcCall == target.n {
				atomic.AddInt32(&hit32, 1)
				pos := sp.Pos
				if pos == -2 {
					pos = len(cl.Requests) - 1
				}
				return &fake.Fault{Kind: sp.Kind, Pos: pos}
			}
			if target2 != nil && cl.Service.Name == target2.svc && cl.SvcCall == target2.n {
				return &fake.Fault{Kind: sp.Kind2, Pos: 0}
			}
			return nil
		}
	}
	tags := map[string]bool{"fault:" + sp.Kind: true, fmt.Sprintf("call:%d", sp.CallIdx): true}
	if !target.node {
		tags["root-call"] = true
	} else {
		tags["child-call"] = true
	}
	if sp.Batch {
		tags["batch-with-canary"] = true
	}
	if overTCP {
		tags["over-tcp"] = true
	}
	if warm {
		tags["over-tcp-kept-alive-connection"] = true
	}
	if target2 != nil {
		tags["two-faults"] = true
		tags["fault2:"+sp.Kind2] = true
	}
	switch sp.Pos {
	case 0:
		tags["pos:first"] = true
	case -2:
		tags["pos:last"] = true
	default:
		tags["pos:all"] = true
	}
	res.Tags = sortedKeys(tags)
	res.Key = hashStr(specHashOf(sp.U), sp.Op.Query, fmt.Sprint(sp.CallIdx, sp.Kind, sp.Pos, sp.Batch, sp.Second, sp.Kind2))

	var body []byte
	if sp.Batch {
		if sp.CanaryFirst {
			body, _ = json.Marshal(opsToWire([]gen.Op{sp.Canary, sp.Op}))
		} else {
			body, _ = json.Marshal(opsToWire([]gen.Op{sp.Op, sp.Canary}))
		}
	} else {
		body = rig.Body(&sp.Op)
	}
	done := make(chan *rig.HTTPResult, 1)
	go func() { done <- r.Do("application/json", body) }()
	var hr *rig.HTTPResult
	select {
	case hr = <-done:
	case <-time.After(60 * time.Second):
		res.Verdict, res.Symptom, res.Message = run.Violated, "handler-did-not-return", "no answer within 60s after fault "+sp.Kind
		return []run.Result{res}
	}
	hit := int(atomic.LoadInt32(&hit32))
	res.NonTrivial = hit > 0
	res.Counters["faults_hit"] = hit
	res.Counters["kind:"+sp.Kind] = 1
	var viol []violation
	add := func(sym, msg string) { viol = append(viol, violation{sym, msg}) }
	desc := fmt.Sprintf("fault %s at call %d (%s #%d, batch of %d) pos %d; operation: %s", sp.Kind, sp.CallIdx, target.svc, target.n, target.sz, sp.Pos, strings.Join(strings.Fields(sp.Op.Query), " "))
	var opResp *rig.GQLResponse
	if hr.Panic != nil {
		add("handler-panic: "+errTemplate(fmt.Sprint(hr.Panic)), fmt.Sprint(hr.Panic)+"\n"+hr.Stack)
	} else if hr.Status != 200 {
		add(fmt.Sprintf("status-%d", hr.Status), string(hr.Body))
	} else if sp.Batch {
		els, derr := rig.DecodeBatch(hr.Body)
		if derr != nil || len(els) != 2 {
			add("malformed-batch-response", fmt.Sprintf("%v %s", derr, head(string(hr.Body), 300)))
		} else {
			if sp.CanaryFirst {
				els[0], els[1] = els[1], els[0]
			}
			opResp = els[0]
			if canaryOK {
				if len(els[1].Errors) > 0 {
					add("sibling-operation-in-batch-affected: errors", errMessages(els[1].Errors))
				} else {
					pr, pg := rig.Prune(crefData, anyMap(els[1].Data))
					if d := rig.FirstDiff(pr, pg, "data"); d != nil {
						add("sibling-operation-in-batch-affected: "+d.Kind, d.String())
					}
				}
				res.Counters["batch_siblings_checked"] = 1
			}
		}
	} else {
		g, derr := rig.DecodeSingle(hr.Body)
		if derr != nil {
			add("malformed-response", derr.Error()+": "+head(string(hr.Body), 300))
		} else {
			opResp = g
		}
	}
	if opResp != nil && hit > 0 {
		if fake.IsFailureSignal(sp.Kind) && len(opResp.Errors) == 0 {
			applicable := true
			if (sp.Kind == "missing-node" || sp.Kind == "node-wrong-type") && !target.node {
				applicable = false // root steps have no node wrapper to corrupt
			}
			if applicable {
				add("failure-signal-not-reported: "+sp.Kind, desc+"\nresponse: "+head(string(hr.Body), 400))
			}
		}
		// provenance
		have := map[string]int{}
		for _, b := range r.Log.SentBodies() {
			var v any
			if json.Unmarshal(b, &v) == nil {
				rig.Leaves(v, have)
			}
		}
		got := map[string]int{}
		rig.Leaves(anyMap(opResp.Data), got)
		for leaf := range got {
			if have[leaf] == 0 {
				add("value-not-returned-by-any-service", fmt.Sprintf("data contains %s which no service sent; %s\nresponse: %s", leaf, desc, head(string(hr.Body), 400)))
				break
			}
		}
		res.Counters["leaves_checked"] = len(got)
	}
	// canary afterwards (faults disarmed: later requests must be unaffected by the earlier failure)
	atomic.StoreInt32(&armed32, 0)
	if sp.Kind == "status-500" && sp.Pos == -1 && !sp.Batch && sp.Second < 0 && hr.Panic == nil {
		// the service stays down for a dozen more requests, then recovers: whatever the gateway keeps per service
		// (slots, breakers, pooled connections) must not be used up by failures
		atomic.StoreInt32(&storm32, 1)
		for i := 0; i < 12; i++ {
			stormDone := make(chan struct{})
			go func() { r.Query(&sp.Op); close(stormDone) }()
			select {
			case <-stormDone:
			case <-time.After(20 * time.Second):
				add("request-during-outage-did-not-return", fmt.Sprintf("request %d of 12 while %s answers 500: no answer within 20s; %s", i+1, target.svc, desc))
				i = 12
			}
		}
		atomic.StoreInt32(&storm32, 0)
		res.Counters["outages_then_recovery"] = 1
		res.Counters["calls_failed_during_outages"] = int(atomic.LoadInt32(&stormHits32))
	}
	if canaryOK && hr.Panic == nil {
		canaryDone := make(chan *rig.HTTPResult, 1)
		go func() { canaryDone <- r.Query(&sp.Canary) }()
		select {
		case ch := <-canaryDone:
			if v := judgeAgainstRef(ch, crefData); v != nil {
				add("later-request-affected: "+v.symptom, v.msg)
			}
		case <-time.After(30 * time.Second):
			add("later-request-affected: no answer", "the request after the failure was not answered within 30s; "+desc)
		}
		res.Counters["canaries_after"] = 1
	}
	if sp.Kind == "status-500" && sp.Pos == -1 && !sp.Batch && sp.Second < 0 && hr.Panic == nil {
		// the faulted operation itself once more, the service being healthy again
		again := make(chan *rig.HTTPResult, 1)
		go func() { again <- r.Query(&sp.Op) }()
		select {
		case ah := <-again:
			if g, derr := rig.DecodeSingle(ah.Body); derr != nil || len(g.Errors) > 0 {
				add("service-not-usable-after-recovery", fmt.Sprintf("after the outage the operation is answered %s; %s", head(string(ah.Body), 300), desc))
			}
		case <-time.After(30 * time.Second):
			add("service-not-usable-after-recovery", "no answer within 30s after the outage; "+desc)
		}
	}
	// net/http hands a connection back only when the answer body was read to its end or closed: a body that is
	// dropped unread keeps the connection, and with a bounded pool the next sub-request waits for it forever
	handed, leaked := r.Log.BodyStats()
	res.Counters["answer_bodies_tracked"] = handed
	if len(leaked) > 0 {
		add("downstream-answer-body-neither-read-nor-closed", fmt.Sprintf("%d of %d answer bodies (%s) were dropped unread and unclosed; %s", len(leaked), handed, strings.Join(leaked, ", "), desc))
	}
	if overTCP {
		// listeners, server connections and the pool's idle connections keep goroutines of their own
		res.Counters["goroutine_check_skipped_over_tcp"] = 1
	} else if n := settleGoroutines(base + 2); n > base+2 {
		add("goroutines-left-behind", fmt.Sprintf("%d goroutines before, %d after settle; %s", base, n, desc))
	}
	if len(viol) == 0 {
		if res.NonTrivial && idx%37 == 0 {
			res.Sample = map[string]any{"operation": sp.Op.Query, "fault": sp.Kind, "call": sp.CallIdx, "pos": sp.Pos, "response": head(string(hr.Body), 200)}
		}
		return []run.Result{res}
	}
	var out []run.Result
	seen := map[string]bool{}
	for _, v := range viol {
		if seen[v.symptom] {
			continue
		}
		seen[v.symptom] = true
		r2 := res
		r2.Verdict, r2.Symptom, r2.Message = run.Violated, v.symptom, v.msg
		if len(out) > 0 {
			r2.Key, r2.NonTrivial, r2.Counters = "", false, nil
		}
		out = append(out, r2)
	}
	return out
}

func (p c09) SpecTags(raw json.RawMessage) []string {
	var sp c09Case
	if json.Unmarshal(raw, &sp) != nil {
		return nil
	}
	t := []string{"fault:" + sp.Kind}
	if sp.CallIdx == 0 {
		t = append(t, "root-call")
	} else {
		t = append(t, "child-call")
	}
	if sp.Kind2 != "" && sp.Second >= 0 {
		t = append(t, "two-faults", "fault2:"+sp.Kind2)
	}
	return t
}
