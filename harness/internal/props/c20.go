package props

import (
	"encoding/json"
	"errors"
	"fmt"
	"runtime"
	"sort"
	"strings"
	"sync"
	"sync/atomic"
	"time"

	"verif/harness/internal/run"
	"verif/harness/internal/sched"

	"github.com/buildbuildio/pebbles/common"
	"github.com/buildbuildio/pebbles/gqlerrors"
)

// C20 — AsyncMapReduce maps once, reduces serially, waits, leaks nothing.
type c20 struct{}

type c20Case struct {
	N       int    `json:"n"`
	Errs    []bool `json:"error_pattern"`
	Mode    string `json:"mode"` // jitter | gated | directed
	Order   []int  `json:"completion_order,omitempty"`
	Wait    string `json:"wait_point,omitempty"`
	Until   string `json:"until_point,omitempty"`
	Reps    int    `json:"repetitions"`
	Jitter  uint64 `json:"jitter_seed"`
	SlowRed bool   `json:"slow_reduce"`
	// SameMsg: the failing items return errors with one and the same message and extensions that differ in their
	// path only (two entities of a list that cannot be completed); each of them is an error that occurred
	SameMsg bool `json:"same_message,omitempty"`
}

func (c20) ID() string            { return "C20" }
func (c20) Level() string         { return "exploration" }
func (c20) RaceIsViolation() bool { return true }
func (c20) Rule() string {
	return "common.AsyncMapReduce is called directly with instrumented map/reduce functions: list lengths 0..12 (thorough 0..40), EVERY success/error pattern for n <= 6 and sampled patterns beyond, each under (a) hook jitter with per-role slowness classes (many repetitions), (b) forced completion orders (map functions block on gates released in a permuted order) and (c) directed schedules: both orders of every (worker point, reducer point) and (reducer point, caller point) pair of the verif hook points; " +
		"oracle per call: every item mapped exactly once; reduce called exactly once per successful item and never while another reduce is running (CAS flag); counters at return equal counters after a settle period; returned errors = injected errors as a multiset; accumulator = fold of the successes; no goroutine with an AsyncMapReduce frame remains; the race detector watches accumulator and error list; " +
		"distinct = distinct (n, pattern, mode, order/constraint) and distinct hook traces are counted; non-trivial = n >= 2"
}
func (c20) Assumptions() []string {
	return []string{"hook points sit before every channel operation of AsyncMapReduce (MANIFEST.hooks); perturbation only delays goroutines at points where the scheduler could pre-empt them anyway", "goroutine leak = an AsyncMapReduce frame still present 300 ms after the call returned while the hook trace is silent"}
}

var (
	amrWorker  = []string{"amr.worker.start", "amr.worker.mapped", "amr.worker.send.res", "amr.worker.send.err", "amr.worker.sent"}
	amrReducer = []string{"amr.reducer.select", "amr.reducer.recv.res", "amr.reducer.recv.err", "amr.reducer.reduced", "amr.reducer.done"}
	amrMain    = []string{"amr.main.wait", "amr.main.waited", "amr.main.done.sent"}
)

type c20Combo struct {
	n       int
	pat     int // bit pattern (bit i = item i errors); -1 => sampled
	mode    string
	wait    string
	until   string
	variant int
}

var c20Lists = map[string][]c20Combo{}
var c20Mu sync.Mutex

func c20List(tier string) []c20Combo {
	c20Mu.Lock()
	defer c20Mu.Unlock()
	if l, ok := c20Lists[tier]; ok {
		return l
	}
	nmax, samples := 12, 6
	if tier == "thorough" {
		nmax, samples = 40, 24
	}
	var out []c20Combo
	for n := 0; n <= nmax; n++ {
		if n <= 6 {
			for pat := 0; pat < 1<<n; pat++ {
				out = append(out, c20Combo{n: n, pat: pat, mode: "jitter"})
				if n >= 2 {
					out = append(out, c20Combo{n: n, pat: pat, mode: "gated"})
				}
			}
		} else {
			for s := 0; s < samples; s++ {
				out = append(out, c20Combo{n: n, pat: -1, mode: "jitter", variant: s}, c20Combo{n: n, pat: -1, mode: "gated", variant: s})
			}
		}
	}
	// long lists (a bounded worker pool, striding or chunking would only show beyond its width)
	bigNs := []int{33, 64, 65, 100}
	if tier == "thorough" {
		bigNs = []int{33, 47, 64, 65, 100, 128, 129, 300, 1000}
	}
	for _, n := range bigNs {
		for s := 0; s < 3; s++ {
			out = append(out, c20Combo{n: n, pat: -1, mode: "jitter", variant: s})
		}
	}
	// nested use, as in the gateway (per operation -> per service -> per response -> per chunk): many outer items whose
	// map function runs the helper again
	nestedNs := []int{40, 300}
	if tier == "thorough" {
		nestedNs = []int{40, 130, 300, 700, 2000}
	}
	for _, n := range nestedNs {
		out = append(out, c20Combo{n: n, pat: -1, mode: "nested"})
	}
	// directed pairs
	pairs := [][2]string{}
	for _, w := range amrWorker {
		for _, r := range amrReducer {
			pairs = append(pairs, [2]string{w, r}, [2]string{r, w})
		}
	}
	for _, r := range amrReducer {
		for _, m := range amrMain {
			pairs = append(pairs, [2]string{r, m}, [2]string{m, r})
		}
	}
	for _, m := range amrMain {
		for _, w := range amrWorker {
			pairs = append(pairs, [2]string{m, w}, [2]string{w, m})
		}
	}
	for _, pr := range pairs {
		for _, n := range []int{1, 2, 3, 5} {
			for v := 0; v < 3; v++ {
				out = append(out, c20Combo{n: n, pat: -1, mode: "directed", wait: pr[0], until: pr[1], variant: v})
			}
		}
	}
	c20Lists[tier] = out
	return out
}

func (p c20) NumCases(c *run.Ctx) int  { return len(c20List(c.Tier)) }
func (p c20) BatchSize(c *run.Ctx) int { return 120 }

func (p c20) Gen(c *run.Ctx, idx int) (json.RawMessage, error) {
	cb := c20List(c.Tier)[idx]
	r := rng(c.Seed, "c20", idx)
	cs := c20Case{N: cb.n, Mode: cb.mode, Wait: cb.wait, Until: cb.until, Jitter: uint64(r.Int63()), SlowRed: r.Intn(3) == 0}
	cs.Errs = make([]bool, cb.n)
	for i := 0; i < cb.n; i++ {
		if cb.pat >= 0 {
			cs.Errs[i] = cb.pat&(1<<i) != 0
		} else {
			cs.Errs[i] = r.Intn(3) == 0
		}
	}
	switch cb.mode {
	case "jitter":
		cs.Reps = 24
		if c.Tier == "thorough" {
			cs.Reps = 120
		}
	case "gated":
		cs.Reps = 4
		cs.Order = r.Perm(cb.n)
	default:
		cs.Reps = 3
	}
	cs.SameMsg = r.Intn(4) == 0
	return mustJSON(cs), nil
}

func amrFramesPresent() (bool, string) {
	buf := make([]byte, 1<<20)
	n := runtime.Stack(buf, true)
	s := string(buf[:n])
	for _, g := range strings.Split(s, "\n\n") {
		if strings.Contains(g, "pebbles/common.AsyncMapReduce") {
			return true, g
		}
	}
	return false, ""
}

type c20Item struct {
	idx int
	err bool
}
type c20Res struct{ idx int }

// c20Hangs counts calls of this process that did not return; the bound then shrinks and, after 8, the remaining
// cases of the child are not run (the process is littered with stuck goroutines; the hangs are already reported).
var c20Hangs int32

func c20ReturnBound() time.Duration {
	if atomic.LoadInt32(&c20Hangs) >= 3 {
		return 3 * time.Second
	}
	return 20 * time.Second
}

func (p c20) Exec(c *run.Ctx, idx int, raw json.RawMessage) []run.Result {
	var sp c20Case
	if err := json.Unmarshal(raw, &sp); err != nil {
		return []run.Result{{Verdict: "broken", Message: err.Error()}}
	}
	res := run.Result{Verdict: run.Held, Counters: map[string]int{}}
	if sp.Mode == "nested" {
		return p.execNested(&sp, res)
	}
	if atomic.LoadInt32(&c20Hangs) >= 8 {
		res.Verdict, res.Symptom, res.Message = run.Inconclusive, "not-run-after-repeated-hangs", "8 calls of this child process already ended with call-did-not-return"
		return []run.Result{res}
	}
	res.NonTrivial = sp.N >= 2
	pat := ""
	for _, e := range sp.Errs {
		if e {
			pat += "E"
		} else {
			pat += "s"
		}
	}
	res.Key = hashStr(fmt.Sprint(sp.N), pat, sp.Mode, fmt.Sprint(sp.Order), sp.Wait, sp.Until)
	res.Tags = []string{"mode:" + sp.Mode}
	fail := func(sym, msg string) []run.Result {
		res.Verdict, res.Symptom = run.Violated, sym
		res.Message = fmt.Sprintf("n=%d pattern=%s mode=%s order=%v constraint=(%s until %s): %s", sp.N, pat, sp.Mode, sp.Order, sp.Wait, sp.Until, msg)
		return []run.Result{res}
	}
	traces := map[string]bool{}
	for rep := 0; rep < sp.Reps; rep++ {
		opts := sched.Options{Seed: sp.Jitter + uint64(rep)*7919, Jitter: sp.Mode != "directed", Record: true, MaxEvents: 4000}
		if sp.Mode == "directed" {
			opts.Constraints = []sched.Constraint{{Wait: sp.Wait, Until: sp.Until}}
			opts.Timeout = 4 * time.Millisecond
			opts.Jitter = rep > 0
		}
		sched.Install(opts)
		mapCalls := make([]int32, sp.N)
		var reduceCalls, inReduce, concurrent int32
		reduced := make([]int32, sp.N)
		gates := make([]chan struct{}, sp.N)
		for i := range gates {
			gates[i] = make(chan struct{})
			if sp.Mode != "gated" {
				close(gates[i])
			}
		}
		payload := make([]c20Item, sp.N)
		for i := range payload {
			payload[i] = c20Item{i, sp.Errs[i]}
		}
		var want []string
		sumWant := 0
		for i, e := range sp.Errs {
			if e {
				if sp.SameMsg {
					want = append(want, fmt.Sprintf("same failure@[%d]", i))
				} else {
					want = append(want, fmt.Sprintf("err-%d", i))
				}
			} else {
				sumWant += i + 1
			}
		}
		sort.Strings(want)
		type ret struct {
			acc  int
			errs []string
		}
		done := make(chan ret, 1)
		go func() {
			acc, errs := common.AsyncMapReduce(payload, 0,
				func(it c20Item) (c20Res, error) {
					atomic.AddInt32(&mapCalls[it.idx], 1)
					<-gates[it.idx]
					if it.err {
						if sp.SameMsg {
							return c20Res{}, &gqlerrors.Error{Message: "same failure", Path: []interface{}{it.idx}, Extensions: map[string]interface{}{"code": "SAME"}}
						}
						return c20Res{}, errors.New(fmt.Sprintf("err-%d", it.idx))
					}
					return c20Res{it.idx}, nil
				},
				func(acc int, v c20Res) int {
					if !atomic.CompareAndSwapInt32(&inReduce, 0, 1) {
						atomic.AddInt32(&concurrent, 1)
					}
					atomic.AddInt32(&reduceCalls, 1)
					if v.idx >= 0 && v.idx < sp.N {
						atomic.AddInt32(&reduced[v.idx], 1)
					}
					if sp.SlowRed {
						// long enough for the workers that are done to queue up on the channels meanwhile
						runtime.Gosched()
						time.Sleep(40 * time.Microsecond)
					}
					atomic.StoreInt32(&inReduce, 0)
					return acc + v.idx + 1
				})
			var es []string
			for _, e := range errs {
				if sp.SameMsg {
					es = append(es, fmt.Sprintf("%s@%v", e.Message, e.Path))
				} else {
					es = append(es, e.Message)
				}
			}
			sort.Strings(es)
			done <- ret{acc, es}
		}()
		if sp.Mode == "gated" {
			for _, i := range sp.Order {
				close(gates[i])
				time.Sleep(30 * time.Microsecond)
			}
		}
		var out ret
		select {
		case out = <-done:
		case <-time.After(c20ReturnBound()):
			atomic.AddInt32(&c20Hangs, 1)
			sched.Uninstall()
			return fail("call-did-not-return", fmt.Sprintf("rep %d: AsyncMapReduce still running %v after every map function was released", rep, c20ReturnBound()))
		}
		// snapshot right after return
		snapReduce := atomic.LoadInt32(&reduceCalls)
		snapMap := make([]int32, sp.N)
		for i := range snapMap {
			snapMap[i] = atomic.LoadInt32(&mapCalls[i])
		}
		// settle and look for leftovers
		leaked, frame := false, ""
		for i := 0; i < 60; i++ {
			leaked, frame = amrFramesPresent()
			if !leaked {
				break
			}
			time.Sleep(5 * time.Millisecond)
		}
		time.Sleep(200 * time.Microsecond)
		evs := sched.Events()
		sched.Uninstall()
		for _, h := range sched.TraceHashes(evs) {
			traces[h] = true
		}
		res.Counters["calls"]++
		res.Counters["hook_events"] += len(evs)
		if leaked {
			return fail("goroutine-left-behind", "300 ms after return an AsyncMapReduce goroutine is still alive:\n"+head(frame, 800))
		}
		for i := 0; i < sp.N; i++ {
			if snapMap[i] != 1 {
				return fail("item-not-mapped-exactly-once", fmt.Sprintf("rep %d: item %d mapped %d times at return", rep, i, snapMap[i]))
			}
			if n := atomic.LoadInt32(&mapCalls[i]); n != snapMap[i] {
				return fail("map-call-after-return", fmt.Sprintf("item %d: %d at return, %d later", i, snapMap[i], n))
			}
			wantR := int32(1)
			if sp.Errs[i] {
				wantR = 0
			}
			if n := atomic.LoadInt32(&reduced[i]); n != wantR {
				return fail("reduce-count-per-item", fmt.Sprintf("rep %d: item %d (error=%v) reduced %d times", rep, i, sp.Errs[i], n))
			}
		}
		if n := atomic.LoadInt32(&reduceCalls); n != snapReduce {
			return fail("reduce-call-after-return", fmt.Sprintf("rep %d: %d reduce calls at return, %d after settling", rep, snapReduce, n))
		}
		if atomic.LoadInt32(&concurrent) > 0 {
			return fail("reduce-ran-concurrently", fmt.Sprintf("rep %d: reduce entered while another reduce was running", rep))
		}
		if out.acc != sumWant {
			return fail("accumulator-wrong", fmt.Sprintf("rep %d: accumulator %d, fold of successes %d", rep, out.acc, sumWant))
		}
		if strings.Join(out.errs, ",") != strings.Join(want, ",") {
			return fail("errors-differ-from-injected", fmt.Sprintf("rep %d: returned %v, injected %v", rep, out.errs, want))
		}
	}
	for h := range traces {
		res.Traces = append(res.Traces, h)
	}
	sat, unsat := int64(0), int64(0)
	_ = sat
	_ = unsat
	if res.NonTrivial && idx%23 == 0 {
		res.Sample = map[string]any{"n": sp.N, "pattern": pat, "mode": sp.Mode, "order": sp.Order, "constraint": sp.Wait + " until " + sp.Until, "repetitions": sp.Reps, "distinct_traces": len(traces)}
	}
	return []run.Result{res}
}

// execNested: N outer items; each outer map function calls the helper again over 3 inner items (2 levels deep for
// every 4th item), outer items held together by a barrier so that they are all in flight at once.
func (p c20) execNested(sp *c20Case, res run.Result) []run.Result {
	res.NonTrivial = true
	res.Key = hashStr("nested", fmt.Sprint(sp.N))
	res.Tags = []string{"mode:nested"}
	inner := func(depth int) (int, error) {
		var rec func(d int) (int, error)
		rec = func(d int) (int, error) {
			v, errs := common.AsyncMapReduce([]int{1, 2, 3}, 0, func(i int) (int, error) {
				if d > 0 && i == 1 {
					return rec(d - 1)
				}
				return i, nil
			}, func(acc int, v int) int { return acc + v })
			if len(errs) > 0 {
				return 0, errors.New(errs[0].Message)
			}
			return v, nil
		}
		return rec(depth)
	}
	items := make([]int, sp.N)
	for i := range items {
		items[i] = i
	}
	var arrived int32
	all := make(chan struct{})
	type ret struct {
		acc  int
		errs int
	}
	done := make(chan ret, 1)
	go func() {
		acc, errs := common.AsyncMapReduce(items, 0, func(i int) (int, error) {
			if int(atomic.AddInt32(&arrived, 1)) == sp.N {
				close(all)
			}
			select {
			case <-all: // every outer map function is running now
			case <-time.After(2 * time.Second):
			}
			d := 0
			if i%4 == 0 {
				d = 1
			}
			return inner(d)
		}, func(acc int, v int) int { return acc + v })
		done <- ret{acc, len(errs)}
	}()
	want := 0
	for i := 0; i < sp.N; i++ {
		if i%4 == 0 {
			want += 6 + 5 // inner item 1 replaced by a nested sum of 6: 6+2+3
		} else {
			want += 6
		}
	}
	select {
	case o := <-done:
		res.Counters["nested_calls"] = 1
		if o.errs != 0 || o.acc != want {
			res.Verdict, res.Symptom, res.Message = run.Violated, "nested-result-wrong", fmt.Sprintf("N=%d: accumulator %d (want %d), %d errors", sp.N, o.acc, want, o.errs)
		}
	case <-time.After(c20ReturnBound()):
		atomic.AddInt32(&c20Hangs, 1)
		res.Verdict, res.Symptom, res.Message = run.Violated, "call-did-not-return", fmt.Sprintf("nested use: %d outer items in flight, each running the helper again: not returned after %v", sp.N, c20ReturnBound())
	}
	return []run.Result{res}
}
