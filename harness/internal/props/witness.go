package props

import (
	"encoding/json"
	"fmt"
	"os"
	"path/filepath"
	"regexp"

	"verif/harness/internal/gen"
	"verif/harness/internal/rig"
	"verif/harness/internal/run"
)

// A small hand-written two-service universe used for known-finding witnesses.
const wSvcA = `interface Node { id: ID! }
interface Actor { id: ID! alpha: String }
type Human implements Actor & Node { id: ID! alpha: String name: String friend: Human friends: [Human] }
type Robot implements Actor & Node { id: ID! alpha: String }
type Query { node(id: ID!): Node hero: Human heroes: [Human] actors: [Actor!]! top(n: Int = 3): String }
type Mutation { rename(n: Int): Human }
`
const wSvcB = `interface Node { id: ID! }
interface Actor { id: ID! beta: Int }
type Human implements Actor & Node { id: ID! beta: Int age(n: Int = 3): Int boss: Human }
type Robot implements Actor & Node { id: ID! beta: Int model: String }
type Query { node(id: ID!): Node other: String }
`
const wMono = `interface Node { id: ID! }
interface Actor { id: ID! alpha: String beta: Int }
type Human implements Actor & Node { id: ID! alpha: String name: String friend: Human friends: [Human] beta: Int age(n: Int = 3): Int boss: Human }
type Robot implements Actor & Node { id: ID! alpha: String beta: Int model: String }
type Query { node(id: ID!): Node hero: Human heroes: [Human] actors: [Actor!]! top(n: Int = 3): String other: String }
type Mutation { rename(n: Int): Human }
`

func wUniverse(seed uint64, pnull int) rig.UniverseSpec {
	return rig.UniverseSpec{
		Services: []rig.ServiceSpec{{Name: "svcA", SDL: wSvcA}, {Name: "svcB", SDL: wSvcB}},
		Mono:     wMono,
		Data:     gen.DataCfg{Seed: seed, PNull: pnull, ListMax: 3, Pool: 3},
	}
}

type witnessDef struct {
	Raw    func() json.RawMessage // explicit spec (overrides the opCase fields)
	ID     string
	Prop   string
	Query  string
	Vars   map[string]any
	OpName string
	PNull  int
	Cfg    rig.Config
}

var witnessDefs = []witnessDef{
	{ID: "KF-C01-01", Prop: "C01", Query: `query($s: Boolean!) { hero { name age @skip(if: $s) } }`, Vars: map[string]any{"s": false}},
	{ID: "KF-C01-02", Prop: "C01", Query: `{ hero { id ... on Human { age } } }`},
	{ID: "KF-C01-03", Prop: "C01", Query: `{ heroes { name age } }`, PNull: 30},
	{ID: "KF-C01-04", Prop: "C01", Query: `{ node(id: "Human_1") { ... on Human { name friend { age } } } }`},
	{ID: "KF-C01-05", Prop: "C01", Query: `{ actors { ... on Actor { alpha } } }`},
	{ID: "KF-C01-06", Prop: "C01", Query: `{ hero { name ... on Human @include(if: false) { age } } }`},
	{ID: "KF-C01-07", Prop: "C01", Query: `query($n: Int = 7) { hero { age(n: $n) } }`},
	{ID: "KF-C01-08", Prop: "C01", Query: `{ actors { alpha beta ... on Human { name age } } }`},
	{ID: "KF-C01-11", Prop: "C01", Query: `{ actors { ... on Robot { __typename model } } }`},
	{ID: "KF-C01-12", Prop: "C01", Query: `{ actors { ... on Human { age } } }`},
	{ID: "KF-C02-01", Prop: "C02", Query: `query($s: Boolean!) { hero { name age @skip(if: $s) } }`, Vars: map[string]any{"s": false}},
	{ID: "KF-C02-02", Prop: "C02", Query: `{ hero { id ... on Human { age } } }`},
	{ID: "KF-C02-04", Prop: "C02", Query: `{ node(id: "Human_1") { ... on Human { name friend { age } } } }`},
	{ID: "KF-C02-05", Prop: "C02", Query: `{ actors { ... on Actor { alpha } } }`},
	{ID: "KF-C02-06", Prop: "C02", Query: `{ hero { name ... on Human @include(if: false) { age } } }`},
	{ID: "KF-C02-07", Prop: "C02", Query: `query($n: Int = 7) { hero { age(n: $n) } }`},
	{ID: "KF-C02-08", Prop: "C02", Query: `{ actors { alpha beta ... on Human { name age } } }`},
	{ID: "KF-C02-12", Prop: "C02", Query: `{ actors { ... on Human { age } } }`},
	{ID: "KF-C15-01", Prop: "C15", Raw: func() json.RawMessage {
		return mustJSON(c15Case{SDL: "type Query {\n  deep: [[[[Int!]!]!]!]!\n  ok: [[[Int!]!]!]\n}\n"})
	}},
	{ID: "KF-C03-01", Prop: "C03", Raw: func() json.RawMessage {
		return mustJSON(mergeCase{U: rig.UniverseSpec{Services: []rig.ServiceSpec{
			{Name: "svc0", SDL: "directive @again(n: Int) repeatable on FIELD\ntype Query {\n  a: String\n}\n"},
			{Name: "svc1", SDL: "type Query {\n  b: String\n}\n"}}}, Perm: []int{0, 1}})
	}},
	{ID: "KF-C05-01", Prop: "C05", Raw: func() json.RawMessage {
		return mustJSON(mergeCase{U: rig.UniverseSpec{Services: []rig.ServiceSpec{
			{Name: "svc0", SDL: "type Query {\n  a: Tri\n}\ntype Tri {\n  x: Int\n}\n"},
			{Name: "svc1", SDL: "type Query {\n  b: Tri\n}\ntype Tri {\n  y: Int\n}\n"},
			{Name: "svc2", SDL: "type Query {\n  c: Tri\n}\ntype Tri {\n  x: Int\n}\n"}}}, Perm: []int{0, 1, 2}, Edit: "benign-disjoint-identical-triple", EditAt: []int{0, 1}, Benign: true})
	}},
	{ID: "KF-C01-13", Prop: "C01", Query: `{ hero { ... on Human { friend { id name } } ... on Human { friend { name } } } }`},
	{ID: "KF-C02-13", Prop: "C02", Query: `{ hero { ... on Human { friend { id name } } ... on Human { friend { name } } } }`},
	{ID: "KF-C01-14", Prop: "C01", Query: `query($id: Int) { hero { name age(n: $id) } }`, Vars: map[string]any{"id": 5}},
	{ID: "KF-C02-14", Prop: "C02", Query: `query($id: Int) { hero { name age(n: $id) } }`, Vars: map[string]any{"id": 5}},
	{ID: "KF-C01-15", Prop: "C01", Query: `{ hero { name id: alpha age } }`},
	{ID: "KF-C02-15", Prop: "C02", Query: `{ hero { name id: alpha age } }`},
	{ID: "KF-C01-09", Prop: "C01", Query: `{ hero { y: friend { name friend { age } } friend { name friend { boss { name } } } } }`},
}

// MakeWitnesses (re)creates /verif/known/<id>.json for every witness definition
// by searching data seeds until the case violates with a symptom its finding matches.
func MakeWitnesses() int {
	ff, err := run.LoadFindings()
	if err != nil {
		fmt.Println(err)
		return 2
	}
	rc := 0
	for _, wd := range witnessDefs {
		var f *run.Finding
		for i := range ff.Findings {
			if ff.Findings[i].ID == wd.ID {
				f = &ff.Findings[i]
			}
		}
		if f == nil {
			fmt.Println("no finding entry for", wd.ID)
			rc = 1
			continue
		}
		re := regexp.MustCompile(f.Symptom)
		found := false
		for seed := uint64(1); seed <= 300 && !found; seed++ {
			sp := opCase{U: wUniverse(seed, wd.PNull), Cfg: wd.Cfg, Op: gen.Op{Query: wd.Query, Variables: wd.Vars, OperationName: wd.OpName}}
			raw := mustJSON(sp)
			if wd.Raw != nil {
				raw = wd.Raw()
				if seed > 1 {
					break
				}
			}
			p := run.Registry[wd.Prop]
			for _, r := range p.Exec(&run.Ctx{Seed: 1, Tier: "quick"}, 0, raw) {
				if r.Verdict != run.Violated {
					continue
				}
				if !re.MatchString(r.Symptom+" :: "+r.Message) || !f.Matches(&r) {
					fmt.Printf("%s seed %d: violates but does not match finding: %s :: %s tags=%v\n", wd.ID, seed, r.Symptom, r.Message, r.Tags)
					continue
				}
				rf := run.ReplayFile{Property: wd.Prop, Seed: 1, Tier: "quick", Symptom: r.Symptom, Message: r.Message, Tags: r.Tags, Spec: raw}
				b, _ := json.MarshalIndent(rf, "", " ")
				os.WriteFile(filepath.Join(run.Root, "known", wd.ID+".json"), b, 0o644)
				fmt.Printf("%s: witness written (data seed %d): %s\n", wd.ID, seed, r.Symptom)
				found = true
				break
			}
		}
		if !found {
			fmt.Println(wd.ID, ": no violating seed found")
			rc = 1
		}
	}
	return rc
}
