package props

import (
	"encoding/json"
	"fmt"
	"math/rand"
	"strings"

	"verif/harness/internal/engine"
	"verif/harness/internal/gen"
	"verif/harness/internal/rig"
	"verif/harness/internal/run"

	"github.com/buildbuildio/pebbles/planner"
)

// C12 — downstream round trips are bounded by plan shape, not by result size.
type c12 struct{}

// the downstream client's default maximum batch size (pebbles.DefaultQueryerFactory); see C11
const c12DefaultMaxBatch = 3000

func (c12) ID() string            { return "C12" }
func (c12) Level() string         { return "exploration" }
func (c12) RaceIsViolation() bool { return false }
func (c12) Rule() string {
	return "cases = generated list-heavy universe x core operation x data size profile (every list of length 1 | 2 | 7 | 50 | 300, entity id pools of 1-3 so the same entity recurs); " +
		"oracle over the downstream event log of one client operation: for every service s, number of HTTP calls that carry fewer requests than the default batch limit 3000 (a level of n lookups legitimately takes ceil(n/3000) calls, all but one of them full, see C11) <= number of plan depths at which a step for s exists (plan taken from SequentialPlanner.Plan on the same context); " +
		"inside one call no two requests with the same query text and variables exactly {id: x}; and the HTTP answer still equals the reference (every duplicate occurrence stitched); " +
		"distinct = distinct (universe, operation, size profile); non-trivial = plan has >= 2 steps and some intermediate list has >= 2 entries"
}
func (c12) Assumptions() []string {
	return []string{"one HTTP call of the real MultiOpQueryer per Queryer.Query call while the batch is <= 3000", "reference engine for the data comparison; cases whose reference answer contains a known-finding shape (null element in an object list) are compared for call counts only"}
}
func (p c12) per(c *run.Ctx) (int, int) {
	if c.Tier == "thorough" {
		return 120, 500
	}
	return 10, 100
}
func (p c12) NumCases(c *run.Ctx) int { u, o := p.per(c); return u * o }

func listProfile(r *rand.Rand) (gen.Profile, gen.DataCfg) {
	p := gen.DefaultProfile()
	p.PList = 0.6
	p.Interfaces, p.Unions = [2]int{0, 0}, [2]int{0, 0}
	p.Subscriptions = false
	return p, gen.DataCfg{Seed: uint64(r.Int63()), PNull: 0, ListMax: 3, Pool: 1 + r.Intn(3)}
}

var c12Sizes = []int{1, 2, 7, 50, 300}

func (p c12) Gen(c *run.Ctx, idx int) (json.RawMessage, error) {
	_, o := p.per(c)
	uidx := idx / o
	cu, err := universe(c.Seed, "list", uidx, listProfile)
	if err != nil {
		return nil, err
	}
	r := rng(c.Seed, "c12/op", idx/len(c12Sizes)) // the same operation across the 5 size profiles
	prof := coreOpProfile()
	prof.Depth = 3
	prof.Width = 2
	prof.MaxRoots = 2
	op := genCoreOp(r, cu.mono, prof)
	if (idx/len(c12Sizes))%4 == 2 {
		// two root services whose sub-trees need the same third service at the same level
		if pr := genSharedDependantProbe(rng(c.Seed, "c12/shared", idx/len(c12Sizes)), cu.u); pr != nil {
			op = pr
		}
	}
	if op == nil {
		return nil, nil
	}
	spec := cu.spec
	spec.Data.FixedLen = c12Sizes[idx%len(c12Sizes)]
	cs := opCase{U: spec, Op: *op, UIdx: uidx}
	if (idx/len(c12Sizes))%3 == 1 {
		// a small configured maximum: levels with exactly the maximum, multiples of it and a rest
		cs.Cfg.MaxBatch = []int{2, 4, 7}[(idx/len(c12Sizes)/3)%3]
	}
	return mustJSON(cs), nil
}

const c12MaxObjects = 40000

func countObjects(v any) int {
	n := 0
	switch x := v.(type) {
	case map[string]any:
		n = 1
		for _, e := range x {
			n += countObjects(e)
		}
	case []any:
		for _, e := range x {
			n += countObjects(e)
		}
	}
	return n
}

func maxListLen(v any) int {
	m := 0
	switch x := v.(type) {
	case map[string]any:
		for _, e := range x {
			if n := maxListLen(e); n > m {
				m = n
			}
		}
	case []any:
		m = len(x)
		for _, e := range x {
			if n := maxListLen(e); n > m {
				m = n
			}
		}
	}
	return m
}

func (p c12) Exec(c *run.Ctx, idx int, raw json.RawMessage) []run.Result {
	var sp opCase
	if err := json.Unmarshal(raw, &sp); err != nil {
		return []run.Result{{Verdict: "broken", Message: err.Error()}}
	}
	res := run.Result{Verdict: run.Held, Counters: map[string]int{}}
	r, err := rig.New(sp.U, sp.Cfg)
	if r != nil {
		defer r.Close()
	}
	if err != nil {
		res.Verdict = run.Skip
		res.Counters["setup_failed"] = 1
		return []run.Result{res}
	}
	steps, _, _, plan, perr := planShape(r, &sp.Op)
	if perr != nil {
		res.Verdict = run.Skip
		res.Counters["plan_failed"] = 1
		res.Message = perr.Error()
		return []run.Result{res}
	}
	levels := map[string]map[int]bool{}
	var walk func(sts []*planner.QueryPlanStep, d int)
	walk = func(sts []*planner.QueryPlanStep, d int) {
		for _, st := range sts {
			if levels[st.URL] == nil {
				levels[st.URL] = map[int]bool{}
			}
			levels[st.URL][d] = true
			walk(st.Then, d+1)
		}
	}
	walk(plan.RootSteps, 0)
	ref := engine.Execute(r.Mono, engine.Request{Query: sp.Op.Query, Variables: sp.Op.Variables, OperationName: sp.Op.OperationName}, r.Data, "")
	if len(ref.Errors) > 0 {
		res.Verdict = run.Skip
		res.Counters["reference_errors"] = 1
		return []run.Result{res}
	}
	refData := rig.Roundtrip(ref.Data)
	if n := countObjects(refData); n > c12MaxObjects {
		// bound of the exploration (memory: a worker answering > 100k lookups under the race detector grew past 50 GB)
		res.Verdict = run.Skip
		res.Counters["answer_larger_than_bound"] = 1
		res.Message = fmt.Sprintf("reference answer holds %d objects (bound %d)", n, c12MaxObjects)
		return []run.Result{res}
	}
	tags := map[string]bool{fmt.Sprintf("len=%d", sp.U.Data.FixedLen): true, fmt.Sprintf("pool=%d", sp.U.Data.Pool): true}
	ml := maxListLen(refData)
	res.NonTrivial = steps >= 2 && ml >= 2
	res.Key = hashStr(specHashOf(sp.U), sp.Op.Query, gen.MarshalVars(sp.Op.Variables))
	res.Counters[fmt.Sprintf("max_list_len_%d", sp.U.Data.FixedLen)] = 1
	res.Tags = sortedKeys(tags)

	maxBatch := c12DefaultMaxBatch
	if sp.Cfg.MaxBatch > 0 {
		maxBatch = sp.Cfg.MaxBatch
		tags[fmt.Sprintf("max-batch=%d", maxBatch)] = true
	}
	mark := r.Log.Len()
	hr := r.Query(&sp.Op)
	evs := r.Log.Since(mark)
	var viol []violation
	callsPerSvc := map[string]map[int64]bool{}
	fullCalls := map[int64]bool{} // calls carrying the configured maximum (C11's chunking): a level of n lookups legitimately takes ceil(n/max) calls, at most one of them not full
	inCall := map[int64]map[string]int{}
	urlOf := map[string]string{}
	for _, s := range r.Services {
		urlOf[s.Name] = s.URL
	}
	for _, e := range evs {
		if callsPerSvc[e.Service] == nil {
			callsPerSvc[e.Service] = map[int64]bool{}
		}
		callsPerSvc[e.Service][e.CallID] = true
		if e.BatchSize >= maxBatch {
			fullCalls[e.CallID] = true
		}
		if len(e.Variables) == 1 {
			if id, ok := e.Variables["id"]; ok {
				if inCall[e.CallID] == nil {
					inCall[e.CallID] = map[string]int{}
				}
				inCall[e.CallID][fmt.Sprintf("%v|%s", id, e.Query)]++
			}
		}
	}
	totalCalls := 0
	for svc, calls := range callsPerSvc {
		totalCalls += len(calls)
		lv := len(levels[urlOf[svc]])
		notFull := 0
		for id := range calls {
			if !fullCalls[id] {
				notFull++
			}
		}
		if notFull > lv {
			viol = append(viol, violation{"more-calls-than-plan-levels", fmt.Sprintf("service %s: %d batched calls for %d plan level(s); list length profile %d, %d downstream requests in total", svc, len(calls), lv, sp.U.Data.FixedLen, len(evs))})
		}
	}
	for call, m := range inCall {
		for k, n := range m {
			if n > 1 {
				viol = append(viol, violation{"duplicate-lookup-in-one-batch", fmt.Sprintf("call %d carries %d identical lookups %s", call, n, head(strings.Join(strings.Fields(k), " "), 200))})
				break
			}
		}
	}
	res.Counters["downstream_requests"] = len(evs)
	res.Counters["downstream_calls"] = totalCalls
	kfShape := map[string]bool{}
	refFacts(refData, kfShape)
	if !kfShape["ref-null-elem"] {
		if v := judgeAgainstRef(hr, refData); v != nil {
			viol = append(viol, *v)
		}
		res.Counters["responses_compared_with_reference"] = 1
	}
	if len(viol) == 0 {
		if res.NonTrivial {
			res.Sample = map[string]any{"query": sp.Op.Query, "list_len": sp.U.Data.FixedLen, "pool": sp.U.Data.Pool, "plan_steps": steps, "downstream_requests": len(evs), "downstream_calls": totalCalls}
		}
		return []run.Result{res}
	}
	var out []run.Result
	seen := map[string]bool{}
	for _, v := range viol {
		if seen[v.symptom] {
			continue
		}
		seen[v.symptom] = true
		r2 := res
		r2.Verdict, r2.Symptom, r2.Message = run.Violated, v.symptom, v.msg+"\nquery: "+sp.Op.Query
		if len(out) > 0 {
			r2.Key, r2.NonTrivial, r2.Counters = "", false, nil
		}
		out = append(out, r2)
	}
	return out
}
