package props

import (
	"encoding/json"
	"fmt"
	"math/rand"
	"sort"
	"strings"

	"verif/harness/internal/engine"
	"verif/harness/internal/gen"
	"verif/harness/internal/rig"
	"verif/harness/internal/run"

	"github.com/vektah/gqlparser/v2"
	"github.com/vektah/gqlparser/v2/ast"
)

// C01 — federated execution equals a single server.
type c01 struct{}

type opCase struct {
	U    rig.UniverseSpec `json:"universe"`
	Cfg  rig.Config       `json:"config"`
	Op   gen.Op           `json:"op"`
	UIdx int              `json:"universe_index"`
	// Before: operations the same gateway answers first; the judged answer must not depend on them
	Before []gen.Op `json:"before,omitempty"`
}

func (c01) ID() string            { return "C01" }
func (c01) Level() string         { return "exploration" }
func (c01) RaceIsViolation() bool { return false }
func (c01) Rule() string {
	return "cases = generated (universe: 1-4 services x entity/value/interface/union types; procedural data) x gateway config x generated valid operation; " +
		"oracle = reference engine on the monolith schema vs HTTP body of Gateway.Handler (errors must be empty, data equal after the empty-object pruning normalisation); " +
		"distinct = distinct (universe hash, operation text+variables, config); non-trivial = the plan for the operation has >= 2 steps (real stitching or multi-service routing)"
}
func (c01) Assumptions() []string {
	return []string{
		"reference engine (harness/internal/engine) implements GraphQL execution for the generated feature set; kept honest by `vcheck selftest` and the k=1 transparency check",
		"fake services answer from the same pure data function as the reference, over their own SDL, after validating the sub-request against it",
		"operations are validated with gqlparser against the gateway's own merged schema before being sent",
	}
}

func opsPerUniverse(tier string) (int, int) {
	if tier == "thorough" {
		return 250, 480
	}
	return 24, 80
}

func (p c01) NumCases(c *run.Ctx) int {
	u, o := opsPerUniverse(c.Tier)
	return u * o
}

func stdProfile(r *rand.Rand) (gen.Profile, gen.DataCfg) {
	p := gen.DefaultProfile()
	d := gen.DataCfg{Seed: uint64(r.Int63()), PNull: []int{0, 10, 30}[r.Intn(3)], ListMax: 1 + r.Intn(4), Pool: 2 + r.Intn(4)}
	if r.Intn(4) == 0 {
		p.CommandOnly = 1
	}
	return p, d
}

// hostileProfile: entity ids containing ':' or '#', strings with quotes / backslashes / unicode / control characters.
func hostileProfile(r *rand.Rand) (gen.Profile, gen.DataCfg) {
	p, d := stdProfile(r)
	d.Hostile = true
	d.IDStyle = r.Intn(3)
	return p, d
}

// oddNamesProfile: object fields called `node` (edge.node style) and arguments of a custom scalar type.
func oddNamesProfile(r *rand.Rand) (gen.Profile, gen.DataCfg) {
	p, d := stdProfile(r)
	p.NodeNamedField, p.ScalarArgs = 0.5, true
	p.ValueWithID = 0.5
	p.PArgs = 0.45
	return p, d
}

// abstractListProfile: more interfaces and unions, most references lists, lists of 3 to 6 entries: the entries of a
// list of an abstract type then are of several types, covered or not by the fragments of an operation.
func abstractListProfile(r *rand.Rand) (gen.Profile, gen.DataCfg) {
	p, d := stdProfile(r)
	p.Interfaces, p.Unions = [2]int{1, 2}, [2]int{1, 2}
	p.PList, p.RootFields = 0.7, [2]int{5, 8}
	p.AbstractRoots = true
	d.ListMax, d.PNull = 6, []int{0, 10}[r.Intn(2)]
	d.FixedLen = 3 + r.Intn(4)
	return p, d
}

// manyServicesProfile: up to 9 services (start-up introspects them concurrently; anything done per window or per
// index of the service list only shows beyond a handful of services).
func manyServicesProfile(r *rand.Rand) (gen.Profile, gen.DataCfg) {
	p, d := stdProfile(r)
	p.MaxServices = 9
	p.Entities, p.RootFields = [2]int{3, 6}, [2]int{5, 9}
	return p, d
}

var c01Configs = []rig.Config{
	{}, {Hint: true}, {Merger: "sanitize"}, {Merger: "sanitize", Hint: true},
	{Planner: "cached", TTLms: 3600000}, {Planner: "cached", TTLms: 3600000, Hint: true, Merger: "sanitize"},
	{Introspect: "e2e"}, {MaxBatch: 2},
}

func genValidOp(r *rand.Rand, mono *ast.Schema, p gen.OpProfile) *gen.Op {
	for try := 0; try < 30; try++ {
		op := gen.GenOp(r, mono, p)
		if op == nil {
			continue
		}
		doc, err := gqlparser.LoadQuery(mono, op.Query)
		if err != nil {
			continue
		}
		if hasTag(op.Tags, "dup-key-direct") && !fieldsCanMerge(doc) {
			// gqlparser lets some same-key fields with different arguments through; such operations are invalid
			continue
		}
		return op
	}
	return nil
}

func (p c01) Gen(c *run.Ctx, idx int) (json.RawMessage, error) {
	_, o := opsPerUniverse(c.Tier)
	uidx := idx / o
	cu, err := universe(c.Seed, "std", uidx, stdProfile)
	if uidx%6 == 5 {
		cu, err = universe(c.Seed, "hostile", uidx, hostileProfile)
	}
	if uidx%6 == 4 {
		cu, err = universe(c.Seed, "odd", uidx, oddNamesProfile)
	}
	if uidx%6 == 3 {
		cu, err = universe(c.Seed, "abslist", uidx, abstractListProfile)
	}
	if uidx%6 == 2 {
		cu, err = universe(c.Seed, "many", uidx, manyServicesProfile)
	}
	if err != nil {
		return nil, err
	}
	r := rng(c.Seed, "c01/op", idx)
	prof := gen.DefaultOpProfile()
	prof.Pool = cu.spec.Data.Pool
	prof.IDStyle = cu.spec.Data.IDStyle
	prof.HostileStrings = cu.spec.Data.Hostile
	if idx%4 == 1 {
		prof.PFragment, prof.PFragReuse = 0.25, 0.5
	}
	if idx%8 == 6 {
		prof.PDupKey = 0.3
	}
	if idx%16 == 10 {
		prof.PRootTypename = 1
	}
	if idx%5 == 4 {
		// mirrored root field: the same entities under two response paths, follow-up requests
		// (nearly) identical -> the executor's request de-duplication and per-path scrubbing
		prof.PMirror, prof.PVar, prof.PFragment, prof.PInline, prof.PDirective = 1, 0, 0, 0, 0
		prof.PExplicitID, prof.Depth = 0.4, 5
	}
	if r.Intn(6) == 0 && cu.mono.Mutation != nil {
		prof.Kind = ast.Mutation
	}
	if uidx%6 == 4 {
		prof.HostileAliases, prof.PAlias = true, 0.2
	}
	if idx%10 == 3 {
		// a client variable called `id`: the name the gateway uses for its own object lookups
		prof.PVar, prof.PVarNamedID = 0.6, 0.7
	}
	var op *gen.Op
	if idx%10 == 9 {
		op = genDedupProbe(r, cu.u)
	}
	if idx%20 == 17 || (uidx%6 == 3 && idx%5 == 2) {
		op = genPartialCoverProbe(rng(c.Seed, "c01/partial-cover", idx), cu)
	}
	if op == nil {
		op = genValidOp(r, cu.mono, prof)
	}
	if op == nil {
		return nil, nil
	}
	cfg := c01Configs[r.Intn(len(c01Configs))]
	if uidx%6 == 2 && idx%2 == 0 {
		cfg = rig.Config{Introspect: "e2e"} // the real introspector over all the services
	}
	cs := opCase{U: cu.spec, Cfg: cfg, Op: *op, UIdx: uidx}
	if idx%20 == 11 {
		if e, j := genAbstractHistoryProbe(r, cu); e != nil {
			cs.Op, cs.Before = *j, []gen.Op{*e}
			return mustJSON(cs), nil
		}
	}
	if idx%3 == 2 {
		// one or two other operations on the same universe, answered by the same gateway before the judged one
		rb := rng(c.Seed, "c01/before", idx)
		bp := gen.DefaultOpProfile()
		bp.Pool, bp.IDStyle, bp.PInline, bp.PTypename = cu.spec.Data.Pool, cu.spec.Data.IDStyle, 0.2, 0.2
		for k := 0; k < 1+rb.Intn(2); k++ {
			if o := genValidOp(rb, cu.mono, bp); o != nil {
				cs.Before = append(cs.Before, *o)
			}
		}
	}
	return mustJSON(cs), nil
}

func cfgTags(cfg rig.Config) []string {
	var t []string
	if cfg.Merger == "sanitize" {
		t = append(t, "cfg-sanitize")
	}
	if cfg.Hint {
		t = append(t, "cfg-hint")
	}
	if cfg.Planner == "cached" {
		t = append(t, "cfg-cached")
	}
	if cfg.Introspect == "e2e" {
		t = append(t, "cfg-e2e")
	}
	if cfg.MaxBatch > 0 {
		t = append(t, "cfg-maxbatch")
	}
	return t
}

// refFacts derives input-side facts from the reference answer (decided before
// looking at the gateway's answer): used as known-finding predicates.
func refFacts(v any, tags map[string]bool) {
	switch x := v.(type) {
	case map[string]any:
		for _, e := range x {
			refFacts(e, tags)
		}
	case []any:
		if len(x) == 0 {
			tags["ref-empty-list"] = true
		}
		hasNull, hasObj := false, false
		for _, e := range x {
			if e == nil {
				hasNull = true
			}
			if _, ok := e.(map[string]any); ok {
				hasObj = true
			}
			if _, ok := e.([]any); ok {
				tags["ref-nested-list"] = true
			}
			refFacts(e, tags)
		}
		if hasNull && hasObj {
			tags["ref-null-elem-in-object-list"] = true
		}
		if hasNull {
			tags["ref-null-elem"] = true
		}
	case nil:
		tags["ref-null"] = true
	}
}

func (p c01) Exec(c *run.Ctx, idx int, raw json.RawMessage) []run.Result {
	var sp opCase
	if err := json.Unmarshal(raw, &sp); err != nil {
		return []run.Result{{Verdict: "broken", Message: "bad spec: " + err.Error()}}
	}
	return []run.Result{execOpCase("C01", &sp)}
}

// execOpCase runs one operation through a fresh gateway and compares with the reference.
func execOpCase(prop string, sp *opCase) run.Result {
	res := run.Result{Verdict: run.Held, Counters: map[string]int{}}
	r, err := rig.New(sp.U, sp.Cfg)
	if r != nil {
		defer r.Close()
	}
	if err != nil {
		if r == nil {
			return run.Result{Verdict: "broken", Message: err.Error()}
		}
		res.Verdict = run.Skip
		res.Counters["gateway_start_failed"] = 1
		res.Message = err.Error()
		return res
	}
	tags := map[string]bool{}
	for _, t := range sp.Op.Tags {
		tags[t] = true
	}
	for _, t := range cfgTags(sp.Cfg) {
		tags[t] = true
	}
	tags[fmt.Sprintf("k=%d", len(sp.U.Services))] = true
	if sp.U.Data.Hostile {
		tags["data:hostile-strings"] = true
	}
	switch sp.U.Data.IDStyle {
	case 1:
		tags["data:id-with-colon"] = true
	case 2:
		tags["data:id-with-hash"] = true
	}
	if strings.Contains(sp.Op.Query, "\\") {
		tags["op:escaped-string-literal"] = true
	}
	doc, gerr := gqlparser.LoadQuery(r.Merged.Schema, sp.Op.Query)
	if gerr != nil {
		res.Verdict = run.Skip
		res.Counters["op_invalid_on_gateway_schema"] = 1
		res.Message = gerr.Error()
		return res
	}
	var opDef *ast.OperationDefinition
	if sp.Op.OperationName != "" {
		opDef = doc.Operations.ForName(sp.Op.OperationName)
	} else if len(doc.Operations) == 1 {
		opDef = doc.Operations[0]
	}
	if opDef != nil {
		opFacts(r.Merged.Schema, doc, opDef, sp.Op.Variables, tags)
		routeFacts(r.Merged.Schema, opDef, r.Merged.TypeURLMap.Get, tags)
		keyReuseRouted(r.Merged.Schema, opDef, r.Merged.TypeURLMap.Get, tags)
	}
	ref := engine.Execute(r.Mono, engine.Request{Query: sp.Op.Query, Variables: sp.Op.Variables, OperationName: sp.Op.OperationName}, r.Data, "")
	if len(ref.Errors) > 0 {
		res.Verdict = run.Skip
		res.Counters["reference_errors"] = 1
		res.Message = ref.Errors[0].Message
		return res
	}
	refData := rig.Roundtrip(ref.Data)
	refFacts(refData, tags)
	if opDef != nil {
		refTypedFacts(r.Merged.Schema, doc, opDef.SelectionSet, refData, tags)
	}
	steps, depth, svcs, _, perr := planShape(r, &sp.Op)
	if perr != nil {
		tags["plan-error"] = true
	}
	res.Counters[fmt.Sprintf("plan_steps_%d", min(steps, 9))] = 1
	res.Counters[fmt.Sprintf("plan_depth_%d", depth)] = 1
	res.Counters[fmt.Sprintf("plan_services_%d", len(svcs))] = 1
	res.NonTrivial = steps >= 2
	res.Key = hashStr(specHashOf(sp.U), sp.Op.Query, gen.MarshalVars(sp.Op.Variables), sp.Op.OperationName, sp.Cfg.String())
	res.Tags = sortedKeys(tags)

	rounds := 1
	if sp.Cfg.Planner == "cached" {
		rounds = 2
	}
	mark := r.Log.Len()
	if sp.Cfg.Planner == "cached" && tags["f:multi-op"] && sp.Op.OperationName != "" {
		// history: warm the plan cache with the *other* operation of the same document first
		for _, o := range doc.Operations {
			if o.Name != "" && o.Name != sp.Op.OperationName {
				other := sp.Op
				other.OperationName = o.Name
				other.Variables = nil
				r.Query(&other)
				res.Counters["cache_warmed_with_sibling_operation"] = 1
				break
			}
		}
	}
	for i := range sp.Before {
		// history on the same gateway: nothing an earlier request did (to the shared schema, routing table, plans) may show
		if w := r.Query(&sp.Before[i]); w.Panic != nil {
			res.Verdict, res.Symptom, res.Message = run.Violated, "handler-panic(earlier request): "+errTemplate(fmt.Sprint(w.Panic)), fmt.Sprint(w.Panic)+"\n"+w.Stack
			return res
		}
		res.Counters["earlier_requests_on_the_same_gateway"]++
	}
	if len(sp.Before) > 0 {
		tags["history"] = true
		mark = r.Log.Len()
	}
	for round := 0; round < rounds; round++ {
		hr := r.Query(&sp.Op)
		if v := judgeAgainstRef(hr, refData); v != nil {
			res.Verdict = run.Violated
			res.Symptom = v.symptom
			res.Message = v.msg
			if round == 1 {
				res.Symptom = "second-request(cached): " + res.Symptom
			}
			evs := r.Log.Since(mark)
			var sub []any
			for _, e := range evs {
				sub = append(sub, map[string]any{"service": e.Service, "query": e.Query, "variables": e.Variables, "valid": e.Valid, "valid_err": e.ValidErr, "var_err": e.VarErr})
			}
			res.Detail = map[string]any{"reference": refData, "got": json.RawMessage(safeJSON(hr.Body)), "subrequests": sub}
			break
		}
	}
	res.Counters["downstream_requests"] = len(r.Log.Since(mark))
	if res.Verdict == run.Held && res.NonTrivial {
		res.Sample = map[string]any{"services": len(sp.U.Services), "config": sp.Cfg.String(), "query": sp.Op.Query, "variables": sp.Op.Variables, "plan_steps": steps}
	}
	return res
}

func safeJSON(b []byte) []byte {
	if json.Valid(b) {
		return b
	}
	q, _ := json.Marshal(string(b))
	return q
}

type violation struct{ symptom, msg string }

var normErrRe = strings.NewReplacer("0", "N", "1", "N", "2", "N", "3", "N", "4", "N", "5", "N", "6", "N", "7", "N", "8", "N", "9", "N")

// errTemplate reduces an error message to a template (digits and quoted parts dropped).
func errTemplate(m string) string {
	if i := strings.Index(m, "\n"); i >= 0 {
		m = m[:i]
	}
	if len(m) > 90 {
		m = m[:90]
	}
	return normErrRe.Replace(m)
}

func judgeAgainstRef(hr *rig.HTTPResult, refData any) *violation {
	if hr.Panic != nil {
		return &violation{"handler-panic: " + errTemplate(fmt.Sprint(hr.Panic)), fmt.Sprintf("%v\n%s", hr.Panic, hr.Stack)}
	}
	if hr.Status != 200 {
		return &violation{fmt.Sprintf("status-%d", hr.Status), string(hr.Body)}
	}
	resp, err := rig.DecodeSingle(hr.Body)
	if err != nil {
		return &violation{"malformed-response", err.Error() + ": " + string(hr.Body)}
	}
	if len(resp.Errors) > 0 {
		return &violation{"errors: " + errTemplate(errMessages(resp.Errors)), errMessages(resp.Errors)}
	}
	var got any = map[string]any{}
	if resp.Data != nil {
		got = resp.Data
	}
	pr, pg := rig.Prune(refData, got)
	if d := rig.FirstDiff(pr, pg, "data"); d != nil {
		if d.Kind == "missing-key" && onlyHelperLeaves(d.Ref) {
			// the object(s) missing hold nothing but id / __typename: what is left when exactly those keys were removed
			// (an object that lost all its keys is pruned on both sides)
			return &violation{"data-diff: missing-key(only-id/__typename-below)", d.String()}
		}
		return &violation{"data-diff: " + d.Kind, d.String()}
	}
	return nil
}

// onlyHelperLeaves reports whether v is made of objects / lists whose only leaves sit under the keys id and __typename.
func onlyHelperLeaves(v any) bool {
	switch x := v.(type) {
	case map[string]any:
		if len(x) == 0 {
			return false
		}
		for k, e := range x {
			switch e.(type) {
			case map[string]any, []any:
				if !onlyHelperLeaves(e) {
					return false
				}
			default:
				if k != "id" && k != "__typename" {
					return false
				}
			}
		}
		return true
	case []any:
		if len(x) == 0 {
			return false
		}
		for _, e := range x {
			if e != nil && !onlyHelperLeaves(e) {
				return false
			}
		}
		return true
	}
	return false
}

func hasTag(tags []string, t string) bool {
	for _, x := range tags {
		if x == t {
			return true
		}
	}
	return false
}

// fieldsCanMerge is a conservative version of the specification's "field selection merging" rule: within one
// selection set (fragments flattened regardless of type condition) fields sharing a response key must have the same
// name and arguments, recursively over their merged sub-selections.
func fieldsCanMerge(doc *ast.QueryDocument) bool {
	var flat func(set ast.SelectionSet, out *[]*ast.Field)
	flat = func(set ast.SelectionSet, out *[]*ast.Field) {
		for _, sel := range set {
			switch x := sel.(type) {
			case *ast.Field:
				*out = append(*out, x)
			case *ast.InlineFragment:
				flat(x.SelectionSet, out)
			case *ast.FragmentSpread:
				if x.Definition != nil {
					flat(x.Definition.SelectionSet, out)
				}
			}
		}
	}
	sig := func(f *ast.Field) string {
		var as []string
		for _, a := range f.Arguments {
			as = append(as, a.Name+":"+a.Value.String())
		}
		sort.Strings(as)
		return f.Name + "(" + strings.Join(as, ",") + ")"
	}
	var check func(sets []ast.SelectionSet) bool
	check = func(sets []ast.SelectionSet) bool {
		var fs []*ast.Field
		for _, s := range sets {
			flat(s, &fs)
		}
		byKey := map[string][]*ast.Field{}
		for _, f := range fs {
			k := f.Alias
			if k == "" {
				k = f.Name
			}
			byKey[k] = append(byKey[k], f)
		}
		for _, g := range byKey {
			var subs []ast.SelectionSet
			for _, f := range g {
				if sig(f) != sig(g[0]) {
					return false
				}
				if len(f.SelectionSet) > 0 {
					subs = append(subs, f.SelectionSet)
				}
			}
			if len(subs) > 0 && !check(subs) {
				return false
			}
		}
		return true
	}
	for _, op := range doc.Operations {
		if !check([]ast.SelectionSet{op.SelectionSet}) {
			return false
		}
	}
	return true
}
