package props

import (
	"github.com/vektah/gqlparser/v2/ast"
)

// opFacts derives structural feature tags from a validated operation.  They are
// input-side facts (computed without looking at the gateway's answer) and serve
// as the predicates of known findings.
func opFacts(s *ast.Schema, doc *ast.QueryDocument, op *ast.OperationDefinition, vars map[string]any, tags map[string]bool) {
	for _, vd := range op.VariableDefinitions {
		_, supplied := vars[vd.Variable]
		if vd.DefaultValue != nil && !supplied {
			tags["f:var-default-unsupplied"] = true
		}
		if vd.Variable == "id" {
			tags["f:var-named-id"] = true
		}
	}
	for _, sel := range op.SelectionSet {
		if f, ok := sel.(*ast.Field); ok {
			switch f.Name {
			case "node":
				tags["f:node-root"] = true
			case "__typename":
				tags["f:root-typename"] = true
			case "__schema", "__type":
				tags["f:introspection"] = true
			}
		} else {
			tags["f:root-fragment"] = true
		}
	}
	seen := map[*ast.FragmentDefinition]bool{}
	var walk func(set ast.SelectionSet, parent *ast.Definition, depth int)
	dirs := func(dl ast.DirectiveList, onFragment bool) {
		for _, d := range dl {
			if onFragment {
				tags["f:fragment-with-directive"] = true
			}
			for _, a := range d.Arguments {
				if hasVar(a.Value) {
					tags["f:var-in-directive"] = true
				}
			}
		}
	}
	walk = func(set ast.SelectionSet, parent *ast.Definition, depth int) {
		hasFrag, hasID, hasTypename := false, false, false
		keys := map[string]int{}
		names := map[string]map[string]bool{}
		var flat func(set ast.SelectionSet, top bool)
		flat = func(set ast.SelectionSet, top bool) {
			for _, sel := range set {
				switch x := sel.(type) {
				case *ast.Field:
					key := x.Alias
					if key == "" {
						key = x.Name
					}
					keys[key]++
					if names[x.Name] == nil {
						names[x.Name] = map[string]bool{}
					}
					names[x.Name][key] = true
					if x.Name == "id" {
						hasID = true
					}
					if x.Name == "__typename" {
						hasTypename = true
					}
				case *ast.InlineFragment:
					hasFrag = true
					flat(x.SelectionSet, false)
				case *ast.FragmentSpread:
					hasFrag = true
					if x.Definition != nil {
						flat(x.Definition.SelectionSet, false)
					}
				}
			}
		}
		flat(set, true)
		for _, n := range keys {
			if n > 1 {
				tags["f:dup-response-key"] = true
			}
		}
		// one response key for different fields (only valid in fragments on types that cannot both apply)
		keyNames := map[string]map[string]bool{}
		for name, ks := range names {
			for k := range ks {
				if keyNames[k] == nil {
					keyNames[k] = map[string]bool{}
				}
				keyNames[k][name] = true
			}
		}
		for _, ns := range keyNames {
			if len(ns) > 1 {
				tags["f:dup-response-key-different-fields"] = true
			}
		}
		for _, ks := range names {
			if len(ks) > 1 {
				tags["f:same-field-twice"] = true
			}
		}
		if hasFrag && hasID {
			tags["f:explicit-id-with-fragment"] = true
		}
		if hasFrag && hasTypename {
			tags["f:explicit-typename-with-fragment"] = true
		}
		abstractParent := parent != nil && (parent.Kind == ast.Interface || parent.Kind == ast.Union)
		if abstractParent {
			tags["f:abstract-selection"] = true
			if parent.Kind == ast.Interface {
				for _, sel := range set {
					if f, ok := sel.(*ast.Field); ok && f.Name != "__typename" && f.Name != "id" {
						tags["f:interface-level-field"] = true
					}
				}
			}
		}
		// fields repeated under one response key are one field whose sub-selections are merged (field collection):
		// what is next to what is decided on the merged selection
		{
			merged := map[string]ast.SelectionSet{}
			count := map[string]int{}
			typ := map[string]*ast.Definition{}
			dirsOf := map[string]string{}
			for _, sel := range set {
				if x, ok := sel.(*ast.Field); ok && x.SelectionSet != nil && x.Definition != nil && x.Definition.Type != nil {
					key := x.Alias
					if key == "" {
						key = x.Name
					}
					// copies of one key that differ in @skip / @include: which copy applies is decided per request
					ds := ""
					for _, d := range x.Directives {
						if d.Name == "skip" || d.Name == "include" {
							ds += "@" + d.Name
							for _, a := range d.Arguments {
								ds += "(" + a.Value.String() + ")"
							}
						}
					}
					if prev, ok := dirsOf[key]; ok && prev != ds {
						tags["f:dup-key-directives-differ"] = true
					}
					dirsOf[key] = ds
					merged[key] = append(merged[key], x.SelectionSet...)
					count[key]++
					typ[key] = s.Types[x.Definition.Type.Name()]
				}
			}
			for _, key := range sortedKeys(count) {
				if count[key] > 1 && depth < 12 {
					walk(merged[key], typ[key], depth+1)
				}
			}
		}
		for _, sel := range set {
			switch x := sel.(type) {
			case *ast.Field:
				if x.Alias == "id" && x.Name != "id" {
					tags["f:alias-id-on-other-field"] = true
					// the response key id is only special where the gateway stitches by it: on types that have an id field
					if od := x.ObjectDefinition; od == nil || od.Fields.ForName("id") != nil {
						tags["f:alias-id-on-type-with-id"] = true
					}
				}
				dirs(x.Directives, false)
				for _, a := range x.Arguments {
					if a.Value != nil && a.Value.Kind != ast.Variable && hasVar(a.Value) {
						tags["f:var-nested-in-literal"] = true
					}
					if depth >= 1 && usesVarNamed(a.Value, "id") {
						tags["f:var-named-id-below-root"] = true
					}
				}
				if x.Definition != nil && x.Definition.Type != nil {
					t := x.Definition.Type
					if t.Elem != nil && t.Elem.Elem != nil {
						tags["f:nested-list-type"] = true
					}
					if x.SelectionSet != nil {
						walk(x.SelectionSet, s.Types[t.Name()], depth+1)
					}
				}
			case *ast.InlineFragment:
				dirs(x.Directives, true)
				tc := parent
				if x.TypeCondition != "" {
					tc = s.Types[x.TypeCondition]
				} else {
					tags["f:untyped-inline-fragment"] = true
					if abstractParent {
						tags["f:fragment-on-abstract"] = true
					}
				}
				if tc != nil && (tc.Kind == ast.Interface || tc.Kind == ast.Union) && x.TypeCondition != "" {
					tags["f:fragment-on-abstract"] = true
				}
				if abstractParent && tc != nil && tc.Kind == ast.Object {
					tags["f:member-fragment"] = true
				}
				walk(x.SelectionSet, tc, depth)
			case *ast.FragmentSpread:
				dirs(x.Directives, true)
				tags["f:named-fragment"] = true
				if x.Definition != nil {
					tc := s.Types[x.Definition.TypeCondition]
					if tc != nil && (tc.Kind == ast.Interface || tc.Kind == ast.Union) {
						tags["f:fragment-on-abstract"] = true
					}
					if !seen[x.Definition] || true {
						seen[x.Definition] = true
						walk(x.Definition.SelectionSet, tc, depth)
					}
				}
			}
		}
	}
	var root *ast.Definition
	switch op.Operation {
	case ast.Query:
		root = s.Query
	case ast.Mutation:
		root = s.Mutation
		tags["f:mutation"] = true
	case ast.Subscription:
		root = s.Subscription
	}
	walk(op.SelectionSet, root, 0)
	keyReuse(op, tags)
	if len(doc.Operations) > 1 {
		tags["f:multi-op"] = true
	}
}

func usesVarNamed(v *ast.Value, name string) bool {
	if v == nil {
		return false
	}
	if v.Kind == ast.Variable && v.Raw == name {
		return true
	}
	for _, c := range v.Children {
		if usesVarNamed(c.Value, name) {
			return true
		}
	}
	return false
}

func hasVar(v *ast.Value) bool {
	if v == nil {
		return false
	}
	if v.Kind == ast.Variable {
		return true
	}
	for _, c := range v.Children {
		if hasVar(c.Value) {
			return true
		}
	}
	return false
}

// refTypedFacts walks the reference answer along the operation (type conditions
// ignored: any field with the response key) and records data-dependent input facts.
func refTypedFacts(s *ast.Schema, doc *ast.QueryDocument, set ast.SelectionSet, val any, tags map[string]bool) {
	byKey := map[string][]*ast.Field{}
	var flat func(set ast.SelectionSet)
	flat = func(set ast.SelectionSet) {
		for _, sel := range set {
			switch x := sel.(type) {
			case *ast.Field:
				k := x.Alias
				if k == "" {
					k = x.Name
				}
				byKey[k] = append(byKey[k], x)
			case *ast.InlineFragment:
				flat(x.SelectionSet)
			case *ast.FragmentSpread:
				if x.Definition != nil {
					flat(x.Definition.SelectionSet)
				}
			}
		}
	}
	flat(set)
	m, ok := val.(map[string]any)
	if !ok {
		return
	}
	for k, v := range m {
		fs := byKey[k]
		if len(fs) == 0 {
			continue
		}
		composite := false
		var sub ast.SelectionSet
		for _, f := range fs {
			if len(f.SelectionSet) > 0 {
				composite = true
				sub = append(sub, f.SelectionSet...)
			}
		}
		if !composite {
			continue
		}
		var walkVal func(v any, inList bool)
		walkVal = func(v any, inList bool) {
			switch x := v.(type) {
			case []any:
				for _, e := range x {
					if e == nil {
						tags["ref-null-elem-in-composite-list"] = true
					}
					walkVal(e, true)
				}
			case map[string]any:
				refTypedFacts(s, doc, sub, x, tags)
			case nil:
				tags["ref-null-composite"] = true
			}
		}
		walkVal(v, false)
	}
}

// keyReuse tags operations in which the response key K of a composite field is
// shadowed for executor.FindSelection: that function looks for K among the
// siblings in order and descends into each sibling's subtree before moving on,
// so an earlier sibling whose subtree contains K is found first.
// mergeRepeated implements field collection on a flattened field list: fields repeated under one response key
// (same field name) become one field whose sub-selection is the concatenation of the copies' sub-selections -
// that is the selection the gateway plans since it merges repeated keys.
func mergeRepeated(fs []*ast.Field) []*ast.Field {
	first := map[string]int{}
	var out []*ast.Field
	for _, f := range fs {
		k := f.Alias
		if k == "" {
			k = f.Name
		}
		if i, ok := first[k]; ok && out[i].Name == f.Name && len(f.SelectionSet) > 0 {
			c := *out[i]
			c.SelectionSet = append(append(ast.SelectionSet{}, out[i].SelectionSet...), f.SelectionSet...)
			out[i] = &c
			continue
		}
		if _, ok := first[k]; !ok {
			first[k] = len(out)
		}
		out = append(out, f)
	}
	return out
}

func keyReuse(op *ast.OperationDefinition, tags map[string]bool) {
	var flatten func(set ast.SelectionSet) []*ast.Field
	flatten = func(set ast.SelectionSet) []*ast.Field {
		var out []*ast.Field
		for _, sel := range set {
			switch x := sel.(type) {
			case *ast.Field:
				out = append(out, x)
			case *ast.InlineFragment:
				out = append(out, flatten(x.SelectionSet)...)
			case *ast.FragmentSpread:
				if x.Definition != nil {
					out = append(out, flatten(x.Definition.SelectionSet)...)
				}
			}
		}
		return mergeRepeated(out)
	}
	key := func(f *ast.Field) string {
		if f.Alias != "" {
			return f.Alias
		}
		return f.Name
	}
	var subtreeHas func(f *ast.Field, k string) bool
	subtreeHas = func(f *ast.Field, k string) bool {
		for _, c := range flatten(f.SelectionSet) {
			if key(c) == k || subtreeHas(c, k) {
				return true
			}
		}
		return false
	}
	var walk func(set ast.SelectionSet)
	walk = func(set ast.SelectionSet) {
		fs := flatten(set)
		for j, fj := range fs {
			if len(fj.SelectionSet) == 0 {
				continue
			}
			for i := 0; i < j; i++ {
				if key(fs[i]) != key(fj) && subtreeHas(fs[i], key(fj)) {
					tags["f:composite-key-reused"] = true
				}
			}
			walk(fj.SelectionSet)
		}
	}
	walk(op.SelectionSet)
}

// routeFacts adds ownership-aware facts (route = the gateway's routing table, captured before any answer is
// looked at): which selections below an abstract-typed field need another service than the one that answers
// that field.  Only these are the inputs of KF-08 / KF-12; member fragments and interface-level fields whose
// fields all live at the answering service are forwarded as they are.
func isRootDef(s *ast.Schema, d *ast.Definition) bool {
	return d != nil && (d == s.Query || d == s.Mutation || d == s.Subscription)
}

func implementsNodeDef(d *ast.Definition) bool {
	if d == nil {
		return false
	}
	for _, i := range d.Interfaces {
		if i == "Node" {
			return true
		}
	}
	return false
}

func routeFacts(s *ast.Schema, op *ast.OperationDefinition, route func(typ, field string) (string, bool), tags map[string]bool) {
	isAbs := func(d *ast.Definition) bool { return d != nil && (d.Kind == ast.Interface || d.Kind == ast.Union) }
	var walk func(set ast.SelectionSet, parent *ast.Definition, cur string)
	memberFields := func(set ast.SelectionSet, tc *ast.Definition, cur string, parent *ast.Definition) {
		var rec func(set ast.SelectionSet)
		rec = func(set ast.SelectionSet) {
			for _, sel := range set {
				switch x := sel.(type) {
				case *ast.Field:
					if x.Name == "id" || x.Name == "__typename" {
						continue
					}
					if u, ok := route(tc.Name, x.Name); ok && u != cur {
						tags["f:member-fragment-foreign"] = true
					}
					// the planner decides per field *name* over all members of the abstract type: a field of that name
					// which another member keeps at another service has the same effect
					for _, pt := range s.PossibleTypes[parent.Name] {
						if u, ok := route(pt.Name, x.Name); ok && u != cur {
							tags["f:member-fragment-foreign"] = true
						}
					}
				case *ast.InlineFragment:
					if x.TypeCondition == "" || x.TypeCondition == tc.Name {
						rec(x.SelectionSet)
					}
				case *ast.FragmentSpread:
					if x.Definition != nil && x.Definition.TypeCondition == tc.Name {
						rec(x.Definition.SelectionSet)
					}
				}
			}
		}
		rec(set)
	}
	walk = func(set ast.SelectionSet, parent *ast.Definition, cur string) {
		if parent == nil {
			return
		}
		for _, sel := range set {
			switch x := sel.(type) {
			case *ast.Field:
				if x.Name == "__typename" || x.Definition == nil || x.Definition.Type == nil {
					continue
				}
				owner := cur
				if isAbs(parent) {
					if x.Name != "id" {
						for _, pt := range s.PossibleTypes[parent.Name] {
							if u, ok := route(pt.Name, x.Name); ok && u != cur {
								tags["f:interface-level-field-foreign"] = true
							}
						}
					}
				} else if u, ok := route(parent.Name, x.Name); ok && (isRootDef(s, parent) || implementsNodeDef(parent)) {
					// the fields of a plain (non-Node) type come from whichever service answered the object: the
					// table names just one of the services declaring the type
					owner = u
				}
				if x.SelectionSet != nil {
					walk(x.SelectionSet, s.Types[x.Definition.Type.Name()], owner)
				}
			case *ast.InlineFragment:
				tc := parent
				if x.TypeCondition != "" {
					tc = s.Types[x.TypeCondition]
				}
				if tc == nil {
					continue
				}
				if isAbs(parent) && tc.Kind == ast.Object {
					memberFields(x.SelectionSet, tc, cur, parent)
				}
				walk(x.SelectionSet, tc, cur)
			case *ast.FragmentSpread:
				if x.Definition == nil {
					continue
				}
				tc := s.Types[x.Definition.TypeCondition]
				if tc == nil {
					continue
				}
				if isAbs(parent) && tc.Kind == ast.Object {
					memberFields(x.Definition.SelectionSet, tc, cur, parent)
				}
				walk(x.Definition.SelectionSet, tc, cur)
			}
		}
	}
	var root *ast.Definition
	switch op.Operation {
	case ast.Query:
		root = s.Query
	case ast.Mutation:
		root = s.Mutation
	case ast.Subscription:
		root = s.Subscription
	}
	walk(op.SelectionSet, root, "")
}

// keyReuseRouted refines f:composite-key-reused with the routing table: the depth-first search for a response
// key only goes wrong for keys that lie on the path of an insertion point, i.e. when the later sibling carrying
// the reused key has, somewhere below it, a field that needs another service than the one answering its parent.
func keyReuseRouted(s *ast.Schema, op *ast.OperationDefinition, route func(typ, field string) (string, bool), tags map[string]bool) {
	var flatten func(set ast.SelectionSet) []*ast.Field
	flatten = func(set ast.SelectionSet) []*ast.Field {
		var out []*ast.Field
		for _, sel := range set {
			switch x := sel.(type) {
			case *ast.Field:
				out = append(out, x)
			case *ast.InlineFragment:
				out = append(out, flatten(x.SelectionSet)...)
			case *ast.FragmentSpread:
				if x.Definition != nil {
					out = append(out, flatten(x.Definition.SelectionSet)...)
				}
			}
		}
		return mergeRepeated(out)
	}
	key := func(f *ast.Field) string {
		if f.Alias != "" {
			return f.Alias
		}
		return f.Name
	}
	ownerOf := func(f *ast.Field, cur string) (owner string, foreign bool) {
		owner = cur
		od := f.ObjectDefinition
		if od == nil || f.Name == "id" || f.Name == "__typename" {
			return owner, false
		}
		if od.Kind == ast.Object {
			if u, ok := route(od.Name, f.Name); ok {
				return u, u != cur
			}
			return owner, false
		}
		for _, pt := range s.PossibleTypes[od.Name] {
			if u, ok := route(pt.Name, f.Name); ok && u != cur {
				return u, true
			}
		}
		return owner, false
	}
	var needsStep func(f *ast.Field, cur string) bool
	needsStep = func(f *ast.Field, cur string) bool {
		for _, c := range flatten(f.SelectionSet) {
			o, foreign := ownerOf(c, cur)
			if foreign || needsStep(c, o) {
				return true
			}
		}
		return false
	}
	var subtreeHas func(f *ast.Field, k string) bool
	subtreeHas = func(f *ast.Field, k string) bool {
		for _, c := range flatten(f.SelectionSet) {
			if key(c) == k || subtreeHas(c, k) {
				return true
			}
		}
		return false
	}
	var walk func(set ast.SelectionSet, cur string, root bool)
	walk = func(set ast.SelectionSet, cur string, root bool) {
		fs := flatten(set)
		for j, fj := range fs {
			if len(fj.SelectionSet) == 0 {
				continue
			}
			oj, _ := ownerOf(fj, cur)
			for i := 0; i < j; i++ {
				if key(fs[i]) != key(fj) && subtreeHas(fs[i], key(fj)) && needsStep(fj, oj) {
					tags["f:composite-key-reused-on-step-path"] = true
				}
			}
			walk(fj.SelectionSet, oj, false)
		}
	}
	walk(op.SelectionSet, "", true)
}
