package props

import (
	"bytes"
	"encoding/json"
	"fmt"
	"math/rand"
	"regexp"
	"sort"
	"strings"
	"sync"

	"verif/harness/internal/engine"
	"verif/harness/internal/fake"
	"verif/harness/internal/gen"
	"verif/harness/internal/rig"
	"verif/harness/internal/run"

	"github.com/vektah/gqlparser/v2/ast"
)

// C19 — file uploads arrive at the owning service unchanged.
type c19 struct{}

type c19File struct {
	Name  string   `json:"name"`
	Data  []byte   `json:"data"`
	Paths []string `json:"paths"` // as in the client's map (with batch index prefix in batch mode)
	// GenSize > 0: the bytes are not stored in the spec but generated from GenSeed when the case runs (files beyond
	// the gateway's 32 MiB in-memory multipart limit, which live in a temporary file while the request is served)
	GenSize int   `json:"gen_size,omitempty"`
	GenSeed int64 `json:"gen_seed,omitempty"`
}

type c19Case struct {
	U     rig.UniverseSpec `json:"universe"`
	Ops   []gen.Op         `json:"ops"`
	Batch bool             `json:"batch"`
	Files []c19File        `json:"files"`
	// FaultKind != "": every service drops its first multipart sub-request this way after having read it
	FaultKind string `json:"fault_kind,omitempty"`
	// EchoBoundary: the request is sent once to learn the delimiter the gateway used towards the services; then file 0
	// becomes a text that contains that delimiter (a captured earlier request, an audit log) and the request is sent again
	EchoBoundary bool `json:"echo_boundary,omitempty"`
	// KeyStyle: how the client names the files in the map and the parts: 0 = "0","1",... ; 1 = "1","2",... ; 2 = names
	KeyStyle int `json:"map_key_style,omitempty"`
}

func (c19) ID() string            { return "C19" }
func (c19) Level() string         { return "exploration" }
func (c19) RaceIsViolation() bool { return true }
func (c19) Rule() string {
	return "cases = generated universe with `scalar Upload` and mutation fields taking uploads directly, in lists and inside (nested) input objects, owned by different services x multipart layout: 1-3 operations (single or batched), variable trees with null placeholders at top-level / list / nested-object positions, 1-4 files of 0..64 KiB (names with spaces, unicode, quotes; identical names with different bytes), a file bound to one or several paths, placeholders left unbound; " +
		"oracle: (1) every (client path -> file) is found at the service that owns the field using that variable, in a multipart sub-request whose map binds the same path to a part with the same file name and bytes; (2) sub-requests that do not declare the variable carry no part for it; (3) each operation's response equals the reference (the reference and the fake services substitute the same content-derived marker for a file, so wrong bytes or a wrong path change the answer); race detector on (the variables tree is shared); " +
		"distinct = distinct layouts (operations, variable trees, map, file hashes); non-trivial = at least one file is bound"
}
func (c19) Assumptions() []string {
	return []string{"fake services re-parse the multipart bodies they receive with the harness's own decoder", "uploads are substituted by a marker derived from name + content hash + length on both sides of the comparison"}
}
func (p c19) per(c *run.Ctx) (int, int) {
	if c.Tier == "thorough" {
		return 80, 1200
	}
	return 8, 110
}
func (p c19) NumCases(c *run.Ctx) int { u, o := p.per(c); return u * o }

func uploadProfile(r *rand.Rand) (gen.Profile, gen.DataCfg) {
	p := gen.DefaultProfile()
	p.Uploads = true
	p.Interfaces, p.Unions = [2]int{0, 0}, [2]int{0, 0}
	p.Subscriptions = false
	return p, gen.DataCfg{Seed: uint64(r.Int63()), PNull: 0, ListMax: 2, Pool: 3}
}

type slot struct {
	path string // variables.x.y.0
}

func (p c19) Gen(c *run.Ctx, idx int) (json.RawMessage, error) {
	_, o := p.per(c)
	uidx := idx / o
	cu, err := universe(c.Seed, "upload", uidx, uploadProfile)
	if err != nil {
		return nil, err
	}
	r := rng(c.Seed, "c19/layout", idx)
	cs := c19Case{U: cu.spec}
	nops := 1 + r.Intn(3)
	cs.Batch = nops > 1 || r.Intn(3) == 0
	var slots []slot
	// entity fields for upEnt's selection
	entSel := ""
	if f := cu.mono.Mutation.Fields.ForName("upEnt"); f != nil {
		if d := cu.mono.Types[f.Type.Name()]; d != nil && d.Kind == ast.Object {
			var fs []string
			for _, ff := range d.Fields {
				ft := cu.mono.Types[ff.Type.Name()]
				req := false
				for _, a := range ff.Arguments {
					if a.Type.NonNull && a.DefaultValue == nil {
						req = true
					}
				}
				if ft != nil && (ft.Kind == ast.Scalar || ft.Kind == ast.Enum) && !req && len(fs) < 3 {
					fs = append(fs, ff.Name)
				}
			}
			entSel = " { " + strings.Join(fs, " ") + " }"
		}
	}
	for oi := 0; oi < nops; oi++ {
		name := fmt.Sprintf("U%d", oi)
		var defs, sels []string
		vars := map[string]any{}
		prefix := "variables."
		if cs.Batch {
			prefix = fmt.Sprintf("%d.variables.", oi)
		}
		used := map[string]bool{}
		var extraSels []string
		nf := 1 + r.Intn(3)
		for k := 0; k < nf; k++ {
			switch fld := pick(r, []string{"upOne", "upMany", "upIn", "upEnt", "upTwo"}); fld {
			case "upOne":
				if used[fld] {
					continue
				}
				defs = append(defs, "$f0: Upload")
				vars["f0"] = nil
				sels = append(sels, "upOne(file: $f0)")
				slots = append(slots, slot{prefix + "f0"})
				if r.Intn(3) == 0 {
					// a literal that spells the name of the upload variable, in a field that does not use the variable
					extraSels = append(extraSels, `lit: upMany(files: [], tag: "f0")`)
				}
			case "upMany":
				if used[fld] {
					continue
				}
				n := 1 + r.Intn(3)
				defs = append(defs, "$fs: [Upload]")
				vars["fs"] = make([]any, n)
				sels = append(sels, `upMany(files: $fs, tag: "t")`)
				for i := 0; i < n; i++ {
					slots = append(slots, slot{fmt.Sprintf("%sfs.%d", prefix, i)})
				}
			case "upIn":
				if used[fld] {
					continue
				}
				defs = append(defs, "$in: FileIn")
				vars["in"] = map[string]any{"f": nil, "fs": []any{nil, nil}, "note": "n", "inner": map[string]any{"g": nil, "gs": []any{}}}
				sels = append(sels, "upIn(in: $in)")
				switch r.Intn(4) {
				case 0, 1:
					sels = append(sels, "upIn2(in: $in)")
				case 2:
					// files inside a list of input objects: variables.ins.0.f, variables.ins.1.inner.g
					defs = append(defs, "$ins: [FileIn]")
					vars["ins"] = []any{map[string]any{"f": nil, "note": "first"}, map[string]any{"f": nil, "inner": map[string]any{"g": nil}}}
					sels = append(sels, "upIn2(in: $in, ins: $ins)")
					slots = append(slots, slot{prefix + "ins.0.f"}, slot{prefix + "ins.1.f"}, slot{prefix + "ins.1.inner.g"})
				}
				slots = append(slots, slot{prefix + "in.f"}, slot{prefix + "in.fs.0"}, slot{prefix + "in.fs.1"}, slot{prefix + "in.inner.g"})
			case "upEnt":
				if used[fld] || entSel == "" {
					continue
				}
				defs = append(defs, "$e0: Upload", "$e1: Upload")
				vars["e0"], vars["e1"] = nil, nil
				sels = append(sels, "upEnt(file: $e0, other: $e1)"+entSel)
				slots = append(slots, slot{prefix + "e0"}, slot{prefix + "e1"})
			case "upTwo":
				if used[fld] {
					continue
				}
				defs = append(defs, "$a: Upload", "$b: Upload")
				vars["a"], vars["b"] = nil, nil
				sels = append(sels, "upTwo(a: $a, b: $b)")
				slots = append(slots, slot{prefix + "a"}, slot{prefix + "b"})
			}
			used[sels[len(sels)-1][:5]] = true
			used["upOne"] = used["upOne"] || strings.HasPrefix(sels[len(sels)-1], "upOne")
			used["upMany"] = used["upMany"] || strings.HasPrefix(sels[len(sels)-1], "upMany")
			used["upIn"] = used["upIn"] || strings.HasPrefix(sels[len(sels)-1], "upIn")
			used["upEnt"] = used["upEnt"] || strings.HasPrefix(sels[len(sels)-1], "upEnt")
			used["upTwo"] = used["upTwo"] || strings.HasPrefix(sels[len(sels)-1], "upTwo")
		}
		sels = append(sels, extraSels...)
		shared := r.Intn(4) == 0
		if idx%40 == 11 && oi == 0 {
			shared = true
		}
		if shared {
			// one variable feeding two root fields (possibly owned by different services)
			defs = append(defs, "$s: Upload")
			vars["s"] = nil
			two := [][2]string{{"s1: upOne(file: $s)", "s2: upTwo(a: $s, b: null)"}, {"s1: upOne(file: $s)", "s2: upMany(files: [$s], tag: \"u\")"}, {"s1: upTwo(a: null, b: $s)", "s2: upOne(file: $s)"}}[r.Intn(3)]
			sels = append(sels, two[0], two[1])
			slots = append(slots, slot{prefix + "s"})
		}
		if len(sels) == 0 {
			defs, sels = []string{"$f0: Upload"}, []string{"upOne(file: $f0)"}
			vars["f0"] = nil
			slots = append(slots, slot{prefix + "f0"})
		}
		cs.Ops = append(cs.Ops, gen.Op{Query: "mutation " + name + "(" + strings.Join(defs, ", ") + ") { " + strings.Join(sels, " ") + " }", Variables: vars, OperationName: name})
	}
	// files
	nfiles := 1 + r.Intn(4)
	names := []string{"a.txt", "b b.txt", "ünï.bin", `q"uote.dat`, "a.txt", "c d é.txt", "", "zwj\u200djoined.png", "nb\u00a0sp.txt", "rtl\u200fmark.txt", "back\\slash.txt", "semi;colon=eq.txt"}
	perm := r.Perm(len(slots))
	si := 0
	for fi := 0; fi < nfiles && si < len(perm); fi++ {
		size := []int{0, 1, 17, 1000, 65536}[r.Intn(5)]
		data := make([]byte, size)
		r.Read(data)
		f := c19File{Name: pick(r, names), Data: data}
		if f.Name == "" {
			f.Name = fmt.Sprintf("f%d", fi)
		}
		np := 1
		if r.Intn(4) == 0 {
			np = 2
		}
		for k := 0; k < np && si < len(perm); k++ {
			f.Paths = append(f.Paths, slots[perm[si]].path)
			si++
		}
		cs.Files = append(cs.Files, f)
	}
	if idx%7 == 3 {
		// ... or answers it with GraphQL errors (next to the data, or instead of it)
		cs.FaultKind = pick(r, []string{"transport-eof", "transport-reset", "transport-unexpected-eof", "errors+data", "errors"})
	}
	cs.KeyStyle = []int{0, 0, 1, 2}[idx%4]
	if idx%25 == 13 && cs.FaultKind == "" {
		cs.EchoBoundary = true
	}
	if idx%40 == 11 {
		// a file of a size at which a multipart reader may spool it to disk (over 1 MiB), named at ONE path, whose variable
		// feeds two root fields: every sub-request has to read the whole file from its start
		sharedPath := "variables.s"
		if cs.Batch {
			sharedPath = "0.variables.s"
		}
		bound := false
		for fi := range cs.Files {
			keep := cs.Files[fi].Paths[:0]
			for _, pth := range cs.Files[fi].Paths {
				if pth != sharedPath {
					keep = append(keep, pth)
				}
			}
			cs.Files[fi].Paths = keep
		}
		for fi := range cs.Files {
			if len(cs.Files[fi].Paths) == 0 && !bound {
				cs.Files[fi].Paths = []string{sharedPath}
				cs.Files[fi].Data, cs.Files[fi].GenSize, cs.Files[fi].GenSeed = nil, 1<<20+300000+r.Intn(4096), r.Int63()
				bound = true
			}
		}
		if !bound {
			cs.Files = append(cs.Files, c19File{Name: "spooled.bin", Paths: []string{sharedPath}, GenSize: 1<<20 + 300000 + r.Intn(4096), GenSeed: r.Int63()})
		}
		var kept []c19File
		for _, f := range cs.Files {
			if len(f.Paths) > 0 {
				kept = append(kept, f)
			}
		}
		cs.Files = kept
	}
	if idx%300 == 7 && len(cs.Files) > 0 {
		// one file larger than the 32 MiB the multipart reader keeps in memory, preferably bound to two paths
		f := &cs.Files[0]
		f.Data, f.GenSize, f.GenSeed = nil, 33<<20+r.Intn(4096), r.Int63()
		if len(f.Paths) == 1 && si < len(perm) {
			f.Paths = append(f.Paths, slots[perm[si]].path)
		}
	}
	return mustJSON(cs), nil
}

// c19Key is the key of file i in the map (and the name of its part): the specification only asks for matching strings.
func c19Key(style, i int) string {
	switch style {
	case 1:
		return fmt.Sprint(i + 1)
	case 2:
		return []string{"cover", "file_b", "z", "10", "attachment"}[i%5] + strings.Repeat("_", i/5)
	}
	return fmt.Sprint(i)
}

// c19Body renders the client's multipart request of a case.
func c19Body(sp *c19Case) (string, []byte) {
	var opsJSON []byte
	if sp.Batch {
		opsJSON, _ = json.Marshal(opsToWire(sp.Ops))
	} else {
		opsJSON, _ = json.Marshal(opsToWire(sp.Ops)[0])
	}
	mapv := map[string][]string{}
	for i, f := range sp.Files {
		mapv[c19Key(sp.KeyStyle, i)] = f.Paths
	}
	mb, _ := json.Marshal(mapv)
	parts := []mpPart{{name: "operations", data: opsJSON}, {name: "map", data: mb}}
	for i, f := range sp.Files {
		parts = append(parts, mpPart{name: c19Key(sp.KeyStyle, i), filename: f.Name, data: f.Data})
	}
	return buildMultipart(parts)
}

var varDefRe = regexp.MustCompile(`\$(\w+):`)

func (p c19) Exec(c *run.Ctx, idx int, raw json.RawMessage) []run.Result {
	var sp c19Case
	if err := json.Unmarshal(raw, &sp); err != nil {
		return []run.Result{{Verdict: "broken", Message: err.Error()}}
	}
	res := run.Result{Verdict: run.Held, Counters: map[string]int{}}
	for i := range sp.Files {
		if sp.Files[i].GenSize > 0 {
			sp.Files[i].Data = make([]byte, sp.Files[i].GenSize)
			rand.New(rand.NewSource(sp.Files[i].GenSeed)).Read(sp.Files[i].Data)
			res.Counters["files_beyond_32MiB"]++
		}
	}
	r, err := rig.New(sp.U, rig.Config{})
	if r != nil {
		defer r.Close()
	}
	if err != nil {
		res.Verdict = run.Skip
		res.Counters["setup_failed"] = 1
		return []run.Result{res}
	}
	if sp.EchoBoundary && sp.FaultKind == "" && len(sp.Files) > 0 {
		ct0, body0 := c19Body(&sp)
		mark0 := r.Log.Len()
		r.Do(ct0, body0)
		for _, e := range r.Log.Since(mark0) {
			if e.Boundary != "" {
				b := e.Boundary
				sp.Files[0].Data = []byte("POST /graphql HTTP/1.1\r\nContent-Type: multipart/form-data; boundary=" + b + "\r\n\r\n--" + b + "\r\nContent-Disposition: form-data; name=\"operations\"\r\n\r\n{}\r\n--" + b + "--\r\nafter the captured request")
				res.Counters["boundary_echoed"] = 1
				break
			}
		}
	}
	// build the multipart body
	var opsJSON []byte
	if sp.Batch {
		opsJSON, _ = json.Marshal(opsToWire(sp.Ops))
	} else {
		opsJSON, _ = json.Marshal(opsToWire(sp.Ops)[0])
	}
	mapv := map[string][]string{}
	parts := []mpPart{{name: "operations", data: opsJSON}}
	for i, f := range sp.Files {
		mapv[c19Key(sp.KeyStyle, i)] = f.Paths
	}
	mb, _ := json.Marshal(mapv)
	parts = append(parts, mpPart{name: "map", data: mb})
	for i, f := range sp.Files {
		parts = append(parts, mpPart{name: c19Key(sp.KeyStyle, i), filename: f.Name, data: f.Data})
	}
	ct, body := buildMultipart(parts)
	tags := map[string]bool{}
	multiPath, sameName := false, false
	seenNames := map[string]int{}
	for _, f := range sp.Files {
		if len(f.Paths) > 1 {
			multiPath = true
		}
		seenNames[f.Name]++
		if seenNames[f.Name] > 1 {
			sameName = true
		}
	}
	if multiPath {
		tags["file-at-several-paths"] = true
	}
	if sameName {
		tags["same-file-name-twice"] = true
	}
	if sp.Batch {
		tags["batch"] = true
	}
	for _, o := range sp.Ops {
		if strings.Contains(o.Query, "$s: Upload") {
			tags["variable-used-by-two-fields"] = true
		}
		if strings.Contains(o.Query, "upIn2(in: $in)") {
			tags["input-object-variable-used-by-two-fields"] = true
		}
	}
	// per op: expected variables with markers, and path->file
	type binding struct {
		op   int
		path string // variables.x...
		file c19File
	}
	var binds []binding
	perOpFiles := make([][]fake.FileInfo, len(sp.Ops))
	varsUsedTwice := false
	for _, f := range sp.Files {
		for _, pth := range f.Paths {
			oi := 0
			rel := pth
			if sp.Batch {
				fmt.Sscanf(pth, "%d.", &oi)
				rel = pth[strings.Index(pth, ".")+1:]
			}
			binds = append(binds, binding{oi, rel, f})
			perOpFiles[oi] = append(perOpFiles[oi], fake.FileInfo{Name: f.Name, Bytes: f.Data, Paths: []string{rel}})
		}
	}
	_ = varsUsedTwice
	res.NonTrivial = len(binds) > 0
	res.Tags = sortedKeys(tags)
	res.Key = hashStr(specHashOf(sp.U), string(opsJSON), string(mb), fmt.Sprint(len(sp.Files)))
	res.Counters["files"] = len(sp.Files)
	res.Counters["bindings"] = len(binds)

	var fmu sync.Mutex
	failedCalls := map[int64]bool{}
	if sp.FaultKind != "" {
		failed := map[string]bool{}
		for _, s := range r.Services {
			s.FaultFn = func(cl *fake.Call) *fake.Fault {
				fmu.Lock()
				defer fmu.Unlock()
				if cl.Multipart && !failed[cl.Service.Name] {
					failed[cl.Service.Name] = true
					failedCalls[cl.CallID] = true
					return &fake.Fault{Kind: sp.FaultKind, Pos: -1}
				}
				return nil
			}
		}
		tags["fault:"+sp.FaultKind] = true
		res.Tags = sortedKeys(tags)
	}
	mark := r.Log.Len()
	hr := r.Do(ct, body)
	evs := r.Log.Since(mark)
	var viol []violation
	add := func(sym, msg string) { viol = append(viol, violation{sym, msg}) }
	if sp.FaultKind != "" {
		// the connection broke while an upload was being forwarded: the failure is reported for that operation, and the
		// upload variable never goes out again without its file
		res.Counters["upload_transport_faults"] = 1
		if hr.Panic != nil {
			add("handler-panic: "+errTemplate(fmt.Sprint(hr.Panic)), fmt.Sprint(hr.Panic)+"\n"+hr.Stack)
		}
		var got []*rig.GQLResponse
		if sp.Batch {
			got, _ = rig.DecodeBatch(hr.Body)
		} else if g, e := rig.DecodeSingle(hr.Body); e == nil {
			got = []*rig.GQLResponse{g}
		}
		for _, b := range binds {
			top := strings.Split(strings.TrimPrefix(b.path, "variables."), ".")[0]
			opName := sp.Ops[b.op].OperationName
			faulted := false
			for _, e := range evs {
				if e.OpName != opName {
					continue
				}
				declares := false
				for _, m := range varDefRe.FindAllStringSubmatch(e.Query, -1) {
					if m[1] == top {
						declares = true
					}
				}
				fmu.Lock()
				wasDropped := failedCalls[e.CallID]
				fmu.Unlock()
				if declares && e.Multipart && wasDropped {
					faulted = true
				}
				if declares && !e.Multipart {
					add("upload-variable-sent-without-its-file", fmt.Sprintf("after the %s on the multipart sub-request, service %s received operation %s with $%s in a plain JSON request: %s", sp.FaultKind, e.Service, opName, top, head(e.Query, 200)))
				}
			}
			if faulted && b.op < len(got) && got[b.op] != nil && len(got[b.op].Errors) == 0 && strings.HasPrefix(sp.FaultKind, "errors") {
				add("upload-answer-errors-not-reported", fmt.Sprintf("operation %s: the service answered the sub-request carrying %s with GraphQL errors (%s), the client got none: %s", opName, b.path, sp.FaultKind, head(string(hr.Body), 300)))
			} else if faulted && b.op < len(got) && got[b.op] != nil && len(got[b.op].Errors) == 0 {
				add("upload-transport-failure-not-reported", fmt.Sprintf("operation %s: the sub-request carrying %s was dropped (%s), the client got no errors: %s", opName, b.path, sp.FaultKind, head(string(hr.Body), 300)))
			}
		}
		return c19Finish(res, viol, idx, sp)
	}
	if hr.Panic != nil {
		add("handler-panic: "+errTemplate(fmt.Sprint(hr.Panic)), fmt.Sprint(hr.Panic)+"\n"+hr.Stack)
	} else if hr.Status != 200 {
		add(fmt.Sprintf("well-formed-multipart-answered-%d", hr.Status), head(string(hr.Body), 400)+"\nmap: "+string(mb)+"\noperations: "+head(string(opsJSON), 600))
	} else {
		var got []*rig.GQLResponse
		var derr error
		if sp.Batch {
			got, derr = rig.DecodeBatch(hr.Body)
		} else {
			var g *rig.GQLResponse
			g, derr = rig.DecodeSingle(hr.Body)
			got = []*rig.GQLResponse{g}
		}
		if derr != nil || len(got) != len(sp.Ops) {
			add("malformed-response", fmt.Sprintf("%v %s", derr, head(string(hr.Body), 300)))
		} else {
			for i := range sp.Ops {
				vars := fake.InjectUploads(sp.Ops[i].Variables, perOpFiles[i])
				ref := engine.Execute(r.Mono, engine.Request{Query: sp.Ops[i].Query, Variables: vars, OperationName: sp.Ops[i].OperationName}, r.Data, "")
				if len(ref.Errors) > 0 {
					continue
				}
				if len(got[i].Errors) > 0 {
					add("errors: "+errTemplate(errMessages(got[i].Errors)), fmt.Sprintf("operation %d: %s\n%s\nmap: %s", i, errMessages(got[i].Errors), sp.Ops[i].Query, string(mb)))
					continue
				}
				pr, pg := rig.Prune(rig.Roundtrip(ref.Data), anyMap(got[i].Data))
				if d := rig.FirstDiff(pr, pg, "data"); d != nil {
					add("response-differs-from-reference: "+d.Kind, fmt.Sprintf("operation %d: %s\n%s\nvariables %s\nmap: %s", i, d.String(), sp.Ops[i].Query, gen.MarshalVars(sp.Ops[i].Variables), string(mb)))
				}
				res.Counters["responses_compared"]++
			}
		}
	}
	// delivered parts
	for _, b := range binds {
		top := strings.Split(strings.TrimPrefix(b.path, "variables."), ".")[0]
		opName := sp.Ops[b.op].OperationName
		found := false
		var seen []string
		for _, e := range evs {
			if e.OpName != opName {
				continue
			}
			declares := false
			for _, m := range varDefRe.FindAllStringSubmatch(e.Query, -1) {
				if m[1] == top {
					declares = true
				}
			}
			if !declares {
				continue
			}
			if !e.Multipart {
				seen = append(seen, e.Service+": plain JSON request")
				continue
			}
			for _, fi := range e.Files {
				for _, pp := range fi.Paths {
					if pp == b.path {
						if fi.Name == b.file.Name && bytes.Equal(fi.Bytes, b.file.Data) {
							found = true
						} else {
							seen = append(seen, fmt.Sprintf("%s: part %q with %d bytes at that path", e.Service, fi.Name, len(fi.Bytes)))
						}
					}
				}
			}
			if !found {
				seen = append(seen, fmt.Sprintf("%s: multipart without a matching part (parts: %d)", e.Service, len(e.Files)))
			}
		}
		if !found {
			sort.Strings(seen)
			add("file-not-delivered-unchanged", fmt.Sprintf("operation %s path %s file %q (%d bytes): %s\nmap: %s", opName, b.path, b.file.Name, len(b.file.Data), strings.Join(seen, "; "), string(mb)))
		}
	}
	// no stray parts
	for _, e := range evs {
		if !e.Multipart {
			continue
		}
		res.Counters["multipart_subrequests"]++
		decl := map[string]bool{}
		for _, m := range varDefRe.FindAllStringSubmatch(e.Query, -1) {
			decl[m[1]] = true
		}
		for _, fi := range e.Files {
			for _, pp := range fi.Paths {
				top := strings.Split(strings.TrimPrefix(pp, "variables."), ".")[0]
				if !decl[top] {
					add("file-sent-to-a-sub-request-that-does-not-use-it", fmt.Sprintf("%s received part %q for %s; query: %s", e.Service, fi.Name, pp, strings.Join(strings.Fields(e.Query), " ")))
				}
			}
		}
	}
	return c19Finish(res, viol, idx, sp)
}

func c19Finish(res run.Result, viol []violation, idx int, sp c19Case) []run.Result {
	if len(viol) == 0 {
		if res.NonTrivial && idx%9 == 0 {
			var fs []string
			for _, f := range sp.Files {
				fs = append(fs, fmt.Sprintf("%q %dB -> %v", f.Name, len(f.Data), f.Paths))
			}
			res.Sample = map[string]any{"batch": sp.Batch, "operations": len(sp.Ops), "first_operation": sp.Ops[0].Query, "files": fs}
		}
		return []run.Result{res}
	}
	var out []run.Result
	seen := map[string]bool{}
	for _, v := range viol {
		if seen[v.symptom] {
			continue
		}
		seen[v.symptom] = true
		r2 := res
		r2.Verdict, r2.Symptom, r2.Message = run.Violated, v.symptom, v.msg
		if len(out) > 0 {
			r2.Key, r2.NonTrivial, r2.Counters = "", false, nil
		}
		out = append(out, r2)
	}
	return out
}
