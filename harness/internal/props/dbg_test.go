package props

import (
	"fmt"
	"testing"

	"verif/harness/internal/fake"
	"verif/harness/internal/gen"
	"verif/harness/internal/rig"
)

func TestDbgQuirks(t *testing.T) {
	fake.Install()
	cu, err := universe(1, "std", 0, stdProfile)
	if err != nil {
		t.Fatal(err)
	}
	for _, cfg := range []rig.Config{{}, {Planner: "cached", TTLms: 3600000}} {
		r, err := rig.New(cu.spec, cfg)
		if err != nil {
			t.Fatal(err)
		}
		for _, q := range []gen.Op{
			{Query: `{ __typename __type(name: "Query") { name } }`},
			{Query: `{ t: __typename __schema { queryType { name } } }`},
			{Query: `{ __type(name: "Query") { name kind @skip(if: true) } }`},
			{Query: `query($s: Boolean!) { __type(name: "Query") { name kind @include(if: $s) } }`, Variables: map[string]any{"s": false}},
			{Query: `query($n: String = "Query") { __type(name: $n) { name } }`},
			{Query: `query($n: String = "Color") { __type(name: $n) { name } }`},
			{Query: `{ __typename }`},
			{Query: `mutation { __typename }`},
			{Query: `{ __schema { queryType { name } } ` + cu.u.Query[0].Name + ` { __typename } }`},
			{Query: `{ t: __typename ` + cu.u.Query[0].Name + ` { __typename } }`},
		} {
			q := q
			hr := r.Query(&q)
			fmt.Printf("%v | %s => %s\n", cfg.Planner, q.Query, hr.Body)
		}
		r.Close()
	}
}
