package props

import (
	"strings"
	"github.com/buildbuildio/pebbles/planner"
	"github.com/vektah/gqlparser/v2/ast"
	"github.com/vektah/gqlparser/v2"
	"encoding/json"
	"fmt"
	"os"
	"testing"

	"verif/harness/internal/fake"
	"verif/harness/internal/rig"
)

func TestDbgReplay(t *testing.T) {
	b, err := os.ReadFile(os.Getenv("DBG_FILE"))
	if err != nil {
		t.Skip()
	}
	var f struct {
		Spec json.RawMessage `json:"spec"`
	}
	json.Unmarshal(b, &f)
	var cs opCase
	if err := json.Unmarshal(f.Spec, &cs); err != nil {
		t.Fatal(err)
	}
	fake.Install()
	r, err := rig.New(cs.U, cs.Cfg)
	if err != nil {
		t.Fatal(err)
	}
	for _, o := range cs.Before {
		r.Query(&o)
	}
	mark := r.Log.Len()
	hr := r.Query(&cs.Op)
	for _, e := range r.Log.Since(mark) {
		vb, _ := json.Marshal(e.Variables)
		rb, _ := json.Marshal(e.Response)
		fmt.Printf("--- %s call %d pos %d valid=%v %s\n%s\nvars %s\n=> %s\n", e.Service, e.CallID, e.Pos, e.Valid, e.ValidErr, e.Query, vb, rb)
	}
	fmt.Printf("ANSWER %s\n", hr.Body)
	if _, _, _, plan, perr := planShape(r, &cs.Op); perr == nil {
		var pr func(st *planner.QueryPlanStep, ind string)
		pr = func(st *planner.QueryPlanStep, ind string) {
			fmt.Printf("%sSTEP %s parent=%s ip=%v\n%s  %s\n", ind, st.URL, st.ParentType, st.InsertionPoint, ind, strings.Join(strings.Fields(st.QueryString), " "))
			for _, t := range st.Then {
				pr(t, ind+"    ")
			}
		}
		for _, st := range plan.RootSteps {
			pr(st, "")
		}
	}
	doc, gerr := gqlparser.LoadQuery(r.Merged.Schema, cs.Op.Query)
	fmt.Println(gerr)
	tags := map[string]bool{}
	routeFacts(r.Merged.Schema, doc.Operations[0], r.Merged.TypeURLMap.Get, tags)
	fmt.Println(tags, r.Merged.Schema.Mutation != nil, doc.Operations[0].Operation, len(doc.Operations[0].SelectionSet))
	for _, sel := range doc.Operations[0].SelectionSet {
		if f, ok := sel.(*ast.Field); ok {
			fmt.Println(f.Name, f.Definition != nil, f.Definition.Type.Name())
			for _, s2 := range f.SelectionSet {
				if g, ok := s2.(*ast.Field); ok {
					fmt.Println("   ", g.Name, g.Definition != nil, g.Definition.Type.Name(), len(g.SelectionSet))
					for _, s3 := range g.SelectionSet {
						fmt.Printf("        %T\n", s3)
						if fr, ok := s3.(*ast.InlineFragment); ok {
							fmt.Println("        ", fr.TypeCondition, r.Merged.Schema.Types[fr.TypeCondition] != nil)
							u, ok := r.Merged.TypeURLMap.Get(fr.TypeCondition, "owner")
							fmt.Println("        ", u, ok)
						}
					}
				}
			}
		}
	}
	for _, tn := range []string{"Robot", "Human", "Mutation"} {
		if tp, ok := r.Merged.TypeURLMap[tn]; ok {
			fmt.Println(tn, tp.Fields)
		}
	}
}
