package run

import (
	"os"
	"syscall"
)

func syscallQuit() os.Signal { return syscall.SIGQUIT }
