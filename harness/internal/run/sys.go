package run

import (
	"os"
	"os/exec"
	"syscall"
)

func syscallQuit() os.Signal { return syscall.SIGQUIT }

// killedBySignal returns the name of the signal that ended the child from outside (SIGKILL, SIGTERM), or "".
// A Go panic or fatal error ends the process with exit status 2 (or SIGABRT/SIGSEGV it raises itself), not these.
func killedBySignal(err error) string {
	ee, ok := err.(*exec.ExitError)
	if !ok || ee.ProcessState == nil {
		return ""
	}
	ws, ok := ee.ProcessState.Sys().(syscall.WaitStatus)
	if !ok || !ws.Signaled() {
		return ""
	}
	switch ws.Signal() {
	case syscall.SIGKILL, syscall.SIGTERM:
		return ws.Signal().String()
	}
	return ""
}
