// Package run orchestrates checks: case lists, child-process isolation, race
// log parsing, known-finding matching, evidence and the exit-code contract.
package run

import (
	"bufio"
	"bytes"
	"crypto/sha1"
	"encoding/hex"
	"encoding/json"
	"fmt"
	"os"
	"os/exec"
	"path/filepath"
	"regexp"
	"sort"
	"strconv"
	"strings"
	"sync"
	"time"
)

const (
	Held         = "held"
	Violated     = "violated"
	Inconclusive = "inconclusive"
	Skip         = "skip" // generator produced nothing usable (counted, not an evaluation)
)

// Result is the verdict on one execution.
type Result struct {
	Case       int             `json:"case"`
	Verdict    string          `json:"verdict"`
	Key        string          `json:"key,omitempty"`        // distinctness key
	NonTrivial bool            `json:"nontrivial,omitempty"` // counts for distinct_nontrivial
	Tags       []string        `json:"tags,omitempty"`       // input features (decided before looking at the outcome)
	Symptom    string          `json:"symptom,omitempty"`    // short classification of the violation
	Message    string          `json:"message,omitempty"`
	Spec       json.RawMessage `json:"spec,omitempty"` // replayable input (only kept for violations / samples)
	Detail     any             `json:"detail,omitempty"`
	Sample     any             `json:"sample,omitempty"`
	Counters   map[string]int  `json:"counters,omitempty"`
	Traces     []string        `json:"traces,omitempty"`
}

// Ctx is handed to properties.
type Ctx struct {
	Seed int64
	Tier string
}

// Property is one check.
type Property interface {
	ID() string
	Level() string // evidence level
	Rule() string
	Assumptions() []string
	RaceIsViolation() bool
	NumCases(c *Ctx) int
	// Gen derives the replayable spec of case idx (deterministic in seed/tier/idx).
	Gen(c *Ctx, idx int) (json.RawMessage, error)
	// Exec runs one spec and returns verdicts.
	Exec(c *Ctx, idx int, spec json.RawMessage) []Result
}

// Optional: exhaustive flag and extra evidence.
type Exhaustive interface{ Exhaustive(c *Ctx) bool }

// Optional: input-side tags derivable from the spec alone (used for cases that killed their child).
type SpecTagger interface {
	SpecTags(spec json.RawMessage) []string
}

// Optional: properties may pick their own batch size (cases per child).
type Batcher interface{ BatchSize(c *Ctx) int }

var Registry = map[string]Property{}

func Register(p Property) { Registry[p.ID()] = p }

// ------------------------------------------------------------------ paths

var Root = rootDir()

func rootDir() string {
	if v := os.Getenv("VERIF_ROOT"); v != "" {
		return v
	}
	return "/verif"
}

func workDir() string {
	if v := os.Getenv("VERIF_WORK"); v != "" {
		return v
	}
	return filepath.Join(Root, ".work")
}

func evidenceDir() string {
	if os.Getenv("VERIF_WORK") != "" {
		return filepath.Join(workDir(), "evidence") // runs against a scratch repository never touch /verif/evidence
	}
	return filepath.Join(Root, "evidence")
}

// ------------------------------------------------------------------ known findings

type Finding struct {
	ID       string   `json:"id"`
	Property string   `json:"property"`
	Status   string   `json:"status"` // open | fixed
	What     string   `json:"what"`
	CallSite string   `json:"call_site,omitempty"`
	TagsAll  []string `json:"tags_all,omitempty"`
	TagsAny  []string `json:"tags_any,omitempty"`
	Symptom  string   `json:"symptom_regex,omitempty"`
	Witness  string   `json:"witness,omitempty"` // path relative to /verif
	Commit   string   `json:"commit,omitempty"`
}

type FindingsFile struct {
	Findings []Finding `json:"findings"`
	Fixed    []string  `json:"fixed_log,omitempty"`
}

func LoadFindings() (*FindingsFile, error) {
	b, err := os.ReadFile(filepath.Join(Root, "known_findings.json"))
	if err != nil {
		if os.IsNotExist(err) {
			return &FindingsFile{}, nil
		}
		return nil, err
	}
	var ff FindingsFile
	if err := json.Unmarshal(b, &ff); err != nil {
		return nil, err
	}
	return &ff, nil
}

func (f *Finding) Matches(r *Result) bool {
	if f.Status != "open" || f.Property == "" {
		return false
	}
	has := map[string]bool{}
	for _, t := range r.Tags {
		has[t] = true
	}
	for _, t := range f.TagsAll {
		if !has[t] {
			return false
		}
	}
	if len(f.TagsAny) > 0 {
		ok := false
		for _, t := range f.TagsAny {
			if has[t] {
				ok = true
			}
		}
		if !ok {
			return false
		}
	}
	if f.Symptom != "" {
		re, err := regexp.Compile(f.Symptom)
		if err != nil {
			return false
		}
		if !re.MatchString(r.Symptom + " :: " + r.Message) {
			return false
		}
	}
	return true
}

// ------------------------------------------------------------------ worker side

type journalLine struct {
	Case int             `json:"case"`
	Spec json.RawMessage `json:"spec"`
}

// Worker executes cases [from,to) and writes results to out.
func Worker(p Property, c *Ctx, from, to int, journal, out string) int {
	jf, err := os.OpenFile(journal, os.O_CREATE|os.O_WRONLY|os.O_TRUNC, 0o644)
	if err != nil {
		fmt.Fprintln(os.Stderr, "worker: journal:", err)
		return 2
	}
	of, err := os.OpenFile(out, os.O_CREATE|os.O_WRONLY|os.O_TRUNC, 0o644)
	if err != nil {
		fmt.Fprintln(os.Stderr, "worker: out:", err)
		return 2
	}
	enc := json.NewEncoder(of)
	for i := from; i < to; i++ {
		spec, err := p.Gen(c, i)
		if err != nil {
			enc.Encode(Result{Case: i, Verdict: "broken", Message: "generator: " + err.Error()})
			continue
		}
		if spec == nil {
			enc.Encode(Result{Case: i, Verdict: Skip})
			continue
		}
		jl, _ := json.Marshal(journalLine{Case: i, Spec: spec})
		jf.Write(append(jl, '\n'))
		rs := p.Exec(c, i, spec)
		for _, r := range rs {
			r.Case = i
			if r.Verdict == Violated && r.Spec == nil {
				r.Spec = spec
			}
			enc.Encode(r)
		}
	}
	jf.Write([]byte("{\"case\":-1}\n"))
	jf.Close()
	of.Close()
	return 0
}

// ------------------------------------------------------------------ parent side

type batch struct{ from, to int }

type childOut struct {
	results []Result
	crashed bool
	crashAt int
	spec    json.RawMessage
	stderr  string
	wall    time.Duration
	timeout bool
	killed  string // the child was ended by this signal from outside (e.g. the kernel's OOM killer), not by a Go crash
}

func selfExe(norace bool) string {
	exe, _ := os.Executable()
	if norace {
		alt := exe + "-norace"
		if _, err := os.Stat(alt); err == nil {
			return alt
		}
	}
	return exe
}

func runChild(p Property, c *Ctx, b batch, slot int, tag string, watchdog time.Duration, norace bool) *childOut {
	dir := filepath.Join(workDir(), "run", p.ID())
	os.MkdirAll(dir, 0o755)
	base := filepath.Join(dir, fmt.Sprintf("%s-%d-%d", tag, b.from, b.to))
	journal, out, errf := base+".journal", base+".out", base+".stderr"
	raceDir := filepath.Join(workDir(), "race", p.ID())
	os.MkdirAll(raceDir, 0o755)
	cmd := exec.Command(selfExe(norace), "worker", "--prop", p.ID(), "--tier", c.Tier, "--seed", strconv.FormatInt(c.Seed, 10),
		"--from", strconv.Itoa(b.from), "--to", strconv.Itoa(b.to), "--journal", journal, "--out", out)
	ef, _ := os.Create(errf)
	cmd.Stdout = ef
	cmd.Stderr = ef
	cmd.Env = append(os.Environ(),
		"GORACE=halt_on_error=0 exitcode=0 log_path="+filepath.Join(raceDir, fmt.Sprintf("%s-%d-%d", tag, b.from, b.to)),
		"GOTRACEBACK=all")
	start := time.Now()
	co := &childOut{}
	if err := cmd.Start(); err != nil {
		co.crashed = true
		co.stderr = "cannot start child: " + err.Error()
		return co
	}
	done := make(chan error, 1)
	go func() { done <- cmd.Wait() }()
	var werr error
	select {
	case werr = <-done:
	case <-time.After(watchdog):
		co.timeout = true
		cmd.Process.Signal(os.Interrupt)
		cmd.Process.Signal(syscallQuit())
		select {
		case werr = <-done:
		case <-time.After(10 * time.Second):
			cmd.Process.Kill()
			werr = <-done
		}
	}
	ef.Close()
	co.killed = killedBySignal(werr)
	co.wall = time.Since(start)
	co.results = readResults(out)
	last, spec, finished := readJournal(journal)
	if werr != nil || !finished {
		co.crashed = true
		co.crashAt = last
		co.spec = spec
		eb, _ := os.ReadFile(errf)
		co.stderr = string(eb)
	}
	if !co.crashed {
		os.Remove(journal)
		os.Remove(out)
		if st, err := os.Stat(errf); err == nil && st.Size() == 0 {
			os.Remove(errf)
		}
	}
	return co
}

func readResults(path string) []Result {
	f, err := os.Open(path)
	if err != nil {
		return nil
	}
	defer f.Close()
	var out []Result
	sc := bufio.NewScanner(f)
	sc.Buffer(make([]byte, 1<<20), 256<<20)
	for sc.Scan() {
		var r Result
		if json.Unmarshal(sc.Bytes(), &r) == nil {
			out = append(out, r)
		}
	}
	return out
}

func readJournal(path string) (last int, spec json.RawMessage, finished bool) {
	f, err := os.Open(path)
	if err != nil {
		return -1, nil, false
	}
	defer f.Close()
	last = -1
	sc := bufio.NewScanner(f)
	sc.Buffer(make([]byte, 1<<20), 256<<20)
	for sc.Scan() {
		var jl journalLine
		if json.Unmarshal(sc.Bytes(), &jl) != nil {
			continue
		}
		if jl.Case == -1 {
			finished = true
			continue
		}
		last = jl.Case
		spec = append(json.RawMessage{}, jl.Spec...)
	}
	return
}

var (
	rePanic = regexp.MustCompile(`(?m)^(panic: .*|fatal error: .*)$`)
	reFrame = regexp.MustCompile(`(?m)^(github\.com/buildbuildio/pebbles[^\s(]*)\(`)
	reFile  = regexp.MustCompile(`(?m)^\s+(/repo/[^\s]+:\d+)`)
)

// CrashInHarness reports whether the panicking goroutine's innermost non-runtime frame is harness code.
func CrashInHarness(stderr string) bool {
	m := rePanic.FindStringIndex(stderr)
	if m == nil {
		return false
	}
	rest := stderr[m[1]:]
	// first goroutine block after the panic line
	if i := strings.Index(rest, "\ngoroutine "); i >= 0 {
		rest = rest[i+1:]
	}
	if j := strings.Index(rest, "\n\n"); j >= 0 {
		rest = rest[:j]
	}
	for _, line := range strings.Split(rest, "\n") {
		if strings.HasPrefix(line, "\t") || strings.HasPrefix(line, "goroutine ") || line == "" {
			continue
		}
		if strings.HasPrefix(line, "panic(") || strings.HasPrefix(line, "runtime.") || strings.HasPrefix(line, "runtime/") || strings.HasPrefix(line, "sync.") || strings.HasPrefix(line, "internal/") {
			continue
		}
		return strings.HasPrefix(line, "verif/harness/")
	}
	return false
}

// CrashSymptom extracts "panic: ... @ first pebbles frame" from a goroutine dump.
func CrashSymptom(stderr string) string {
	m := rePanic.FindString(stderr)
	if m == "" {
		m = "abnormal exit"
	}
	idx := strings.Index(stderr, m)
	rest := stderr
	if idx >= 0 {
		rest = stderr[idx:]
	}
	fr := reFrame.FindStringSubmatch(rest)
	site := ""
	if fr != nil {
		site = fr[1]
	}
	if fl := reFile.FindStringSubmatch(rest); fl != nil {
		site += " " + fl[1]
	}
	if len(m) > 200 {
		m = m[:200]
	}
	return "process-death: " + m + " @ " + site
}

// RaceBlock is one parsed data-race report.
type RaceBlock struct {
	Text      string
	Signature string // pair of outermost pebbles functions
	Pebbles   bool
	Harness   bool
}

var reRaceFn = regexp.MustCompile(`(?m)^  ([^\s]+)\(\)\n\s+([^\s]+):(\d+)`)

func ParseRaceLogs(prefixDir string) []RaceBlock {
	var out []RaceBlock
	files, _ := filepath.Glob(filepath.Join(prefixDir, "*"))
	for _, f := range files {
		b, err := os.ReadFile(f)
		if err != nil {
			continue
		}
		parts := strings.Split(string(b), "==================")
		for _, part := range parts {
			if !strings.Contains(part, "WARNING: DATA RACE") {
				continue
			}
			rb := RaceBlock{Text: part}
			// split into stacks by blank lines; take the first two (the racing accesses)
			stacks := strings.Split(part, "\n\n")
			var sigs []string
			for i, st := range stacks {
				if i >= 2 {
					break
				}
				fns := reRaceFn.FindAllStringSubmatch(st, -1)
				outer := ""
				for _, fn := range fns {
					if strings.Contains(fn[1], "buildbuildio/pebbles") {
						outer = fn[1] // keep the outermost (last) pebbles frame
					}
				}
				inner := ""
				for _, fn := range fns {
					if strings.Contains(fn[1], "buildbuildio/pebbles") {
						inner = fn[1]
						break
					}
				}
				if inner != "" {
					rb.Pebbles = true
					sigs = append(sigs, inner+"<-"+outer)
				} else if len(fns) > 0 {
					sigs = append(sigs, fns[0][1])
				}
			}
			if !rb.Pebbles {
				rb.Harness = true
			}
			sort.Strings(sigs)
			rb.Signature = strings.Join(sigs, " || ")
			out = append(out, rb)
		}
	}
	return out
}

// Summary is what Check returns.
type Summary struct {
	Violations int
	Known      int
	Broken     bool
}

func specHash(b []byte) string {
	h := sha1.Sum(b)
	return hex.EncodeToString(h[:8])
}

// ReplayFile is the on-disk format of a replay.
type ReplayFile struct {
	Property string          `json:"property"`
	Seed     int64           `json:"seed"`
	Tier     string          `json:"tier"`
	Case     int             `json:"case"`
	Symptom  string          `json:"symptom,omitempty"`
	Message  string          `json:"message,omitempty"`
	Tags     []string        `json:"tags,omitempty"`
	Detail   any             `json:"detail,omitempty"`
	Spec     json.RawMessage `json:"spec"`
}

func writeReplay(p Property, c *Ctx, r *Result) string {
	dir := filepath.Join(workDir(), "replays", p.ID())
	os.MkdirAll(dir, 0o755)
	rf := ReplayFile{Property: p.ID(), Seed: c.Seed, Tier: c.Tier, Case: r.Case, Symptom: r.Symptom, Message: r.Message, Tags: r.Tags, Detail: r.Detail, Spec: r.Spec}
	b, _ := json.MarshalIndent(rf, "", " ")
	path := filepath.Join(dir, specHash(append([]byte(r.Symptom), r.Spec...))+".json")
	os.WriteFile(path, b, 0o644)
	return path
}

// Check runs property p at the given tier and returns the process exit code.
func Check(p Property, c *Ctx) int {
	start := time.Now()
	os.RemoveAll(filepath.Join(workDir(), "race", p.ID()))
	os.RemoveAll(filepath.Join(workDir(), "run", p.ID()))
	os.RemoveAll(filepath.Join(workDir(), "replays", p.ID()))
	ff, err := LoadFindings()
	if err != nil {
		fmt.Println("BROKEN: cannot read known_findings.json:", err)
		return 2
	}
	// replay the witnesses of the open known findings of this property
	witnessStill := map[string]bool{}
	for i := range ff.Findings {
		f := &ff.Findings[i]
		if f.Property != p.ID() || f.Status != "open" || f.Witness == "" {
			continue
		}
		still, note := replayWitness(p, c, f)
		witnessStill[f.ID] = still
		if still {
			fmt.Printf("KNOWN-FINDING: property=%s %s %s [witness %s still fails: %s]\n", p.ID(), f.ID, f.What, f.Witness, head(note, 160))
		} else {
			fmt.Printf("KNOWN-FINDING-STALE: property=%s %s witness %s: %s\n", p.ID(), f.ID, f.Witness, head(note, 300))
		}
	}
	// regression corpus: the witnesses of repaired defects must hold; a fixed entry suppresses nothing
	var regress []Result
	for i := range ff.Findings {
		f := &ff.Findings[i]
		if f.Property != p.ID() || f.Status != "fixed" || f.Witness == "" {
			continue
		}
		rs, crash := runWitness(p, c, f)
		witnessStill[f.ID] = false
		for _, r := range rs {
			if r.Verdict == Violated {
				r.Symptom = "regression of " + f.ID + " (" + f.Commit + "): " + r.Symptom
				r.Case = -2
				regress = append(regress, r)
				witnessStill[f.ID] = true
			}
		}
		if crash != nil {
			crash.Symptom = "regression of " + f.ID + " (" + f.Commit + "): " + crash.Symptom
			crash.Case = -2
			regress = append(regress, *crash)
			witnessStill[f.ID] = true
		}
	}
	n := p.NumCases(c)
	bs := 0
	if b, ok := p.(Batcher); ok {
		bs = b.BatchSize(c)
	}
	if bs <= 0 {
		bs = n / 64
		if bs < 1 {
			bs = 1
		}
		if bs > 200 {
			bs = 200
		}
	}
	var batches []batch
	for a := 0; a < n; a += bs {
		b := a + bs
		if b > n {
			b = n
		}
		batches = append(batches, batch{a, b})
	}
	workers := 16
	if v := os.Getenv("VERIF_WORKERS"); v != "" {
		if k, err := strconv.Atoi(v); err == nil && k > 0 {
			workers = k
		}
	}
	watchdog := 10 * time.Minute
	if c.Tier == "thorough" {
		watchdog = 40 * time.Minute
	}
	noraceHalf := c.Tier == "thorough" && os.Getenv("VERIF_NORACE_HALF") != "0"

	var mu sync.Mutex
	var all []Result
	var inconclusiveChildren int
	queue := make(chan batch, len(batches)*4+16)
	var wg sync.WaitGroup
	var pending sync.WaitGroup
	for _, b := range batches {
		pending.Add(1)
		queue <- b
	}
	go func() { pending.Wait(); close(queue) }()
	for w := 0; w < workers; w++ {
		wg.Add(1)
		go func(slot int) {
			defer wg.Done()
			for b := range queue {
				norace := noraceHalf && (b.from/bs)%2 == 1
				co := runChild(p, c, b, slot, "b", watchdog, norace)
				mu.Lock()
				all = append(all, co.results...)
				mu.Unlock()
				if co.crashed {
					if co.timeout {
						mu.Lock()
						inconclusiveChildren++
						all = append(all, Result{Case: co.crashAt, Verdict: Inconclusive, Symptom: "watchdog", Message: "child exceeded watchdog; see stderr dump", Spec: co.spec})
						mu.Unlock()
					} else if co.killed != "" && rePanic.FindString(co.stderr) == "" {
						// no Go crash report, ended by a signal from outside (OOM killer, operator): says nothing about pebbles
						mu.Lock()
						inconclusiveChildren++
						all = append(all, Result{Case: co.crashAt, Verdict: Inconclusive, Symptom: "child-killed-by-signal: " + co.killed, Message: "the worker process was ended by signal " + co.killed + " without a Go crash report (out of memory?)", Spec: co.spec})
						mu.Unlock()
					} else if co.crashAt >= 0 && CrashInHarness(co.stderr) {
						mu.Lock()
						all = append(all, Result{Case: co.crashAt, Verdict: "broken", Message: "harness panicked: " + tail(co.stderr, 3000)})
						mu.Unlock()
					} else if co.crashAt >= 0 {
						sym := CrashSymptom(co.stderr)
						// confirm in a fresh child
						co2 := runChild(p, c, batch{co.crashAt, co.crashAt + 1}, slot, "confirm", watchdog, norace)
						msg := tail(co.stderr, 3000)
						nondet := ""
						if !co2.crashed {
							nondet = " (nondeterministic: did not recur in a fresh process)"
						}
						tags := []string{"process-death"}
						for _, r := range co2.results {
							tags = append(tags, r.Tags...)
						}
						if st, ok := p.(SpecTagger); ok && co.spec != nil {
							tags = append(tags, st.SpecTags(co.spec)...)
						}
						mu.Lock()
						all = append(all, Result{Case: co.crashAt, Verdict: Violated, Symptom: sym + nondet, Message: msg, Spec: co.spec, Tags: tags, Key: fmt.Sprintf("crash-%d", co.crashAt)})
						mu.Unlock()
					} else {
						mu.Lock()
						all = append(all, Result{Case: b.from, Verdict: "broken", Message: "child died before first case: " + tail(co.stderr, 2000)})
						mu.Unlock()
					}
					// continue after the culprit
					next := co.crashAt + 1
					if co.crashAt < 0 {
						next = b.to
					}
					if next < b.to {
						pending.Add(1)
						queue <- batch{next, b.to}
					}
				}
				pending.Done()
			}
		}(w)
	}
	wg.Wait()

	// Symptoms that rest on a wall-clock bound (something did not return, did not arrive, was not closed within
	// N seconds) are load-sensitive: on a machine that is busy with other work a correct gateway can miss the bound.
	// Now that all batches are done and nothing else of this run is executing, the cases of such a symptom - if it
	// was seen in at most three cases of the run - are run again, each alone in a fresh process; a symptom none of
	// whose cases recurs is reported as inconclusive (with the original message), never as a violation.  A defect that
	// hangs or leaks does so again, or shows in more than three cases.
	{
		bySym := map[string][]int{}
		for i := range all {
			if all[i].Verdict == Violated && all[i].Case >= 0 && reTimingSymptom.MatchString(all[i].Symptom) {
				bySym[all[i].Symptom] = append(bySym[all[i].Symptom], i)
			}
		}
		syms := make([]string, 0, len(bySym))
		for sym := range bySym {
			syms = append(syms, sym)
		}
		sort.Strings(syms)
		for _, sym := range syms {
			idxs := bySym[sym]
			if len(idxs) > 3 {
				continue // seen in many cases of this run: not the odd missed deadline
			}
			recurred := false
			tried := map[int]bool{}
			for _, i := range idxs {
				if len(tried) >= 3 || recurred {
					break
				}
				cs := all[i].Case
				if tried[cs] {
					continue
				}
				tried[cs] = true
				co := runChild(p, c, batch{cs, cs + 1}, 0, "alone", watchdog, false)
				if co.crashed {
					recurred = true
				}
				for _, r := range co.results {
					if r.Verdict == Violated && reTimingSymptom.MatchString(r.Symptom) {
						recurred = true
					}
				}
			}
			if !recurred {
				for _, i := range idxs {
					all[i].Verdict = Inconclusive
					all[i].Message = "did not recur when the case was run alone after the other work of this run had ended (" + fmt.Sprint(len(tried)) + " case(s) re-run); first observation: " + all[i].Message
					all[i].Symptom = "load-sensitive symptom did not recur alone: " + sym
				}
			}
		}
	}

	all = append(all, regress...)
	// race logs
	races := ParseRaceLogs(filepath.Join(workDir(), "race", p.ID()))
	raceSigs := map[string]int{}
	harnessRaces := 0
	for _, rb := range races {
		if rb.Harness {
			harnessRaces++
			continue
		}
		raceSigs[rb.Signature]++
	}
	if p.RaceIsViolation() {
		seen := map[string]bool{}
		for _, rb := range races {
			if !rb.Pebbles || seen[rb.Signature] {
				continue
			}
			seen[rb.Signature] = true
			spec, _ := json.Marshal(map[string]any{"race": rb.Text})
			all = append(all, Result{Case: -1, Verdict: Violated, Symptom: "data-race: " + rb.Signature, Message: tail(rb.Text, 3000), Spec: spec, Tags: []string{"race"}, Key: "race-" + rb.Signature})
		}
	}

	return finish(p, c, ff, all, start, map[string]any{
		"race_blocks_pebbles": len(races) - harnessRaces, "race_blocks_harness": harnessRaces, "race_signatures": raceSigs,
		"children_timed_out": inconclusiveChildren, "witnesses_replayed": witnessStill,
	}, harnessRaces > 0)
}

// reTimingSymptom matches the symptoms that are decided by a wall-clock bound.
var reTimingSymptom = regexp.MustCompile(`did-not-return|did not return|never-reached-upstream|events-lost|left-open|left-behind|still-open|not-closed|no answer|watchdog`)

func tail(s string, n int) string {
	if len(s) <= n {
		return s
	}
	return "..." + s[len(s)-n:]
}

func head(s string, n int) string {
	if len(s) <= n {
		return s
	}
	return s[:n] + "..."
}

func finish(p Property, c *Ctx, ff *FindingsFile, all []Result, start time.Time, extra map[string]any, harnessBroken bool) int {
	evaluations := 0
	distinct := map[string]bool{}
	tagHist := map[string]int{}
	counters := map[string]int{}
	traces := map[string]bool{}
	var samples []any
	verdicts := map[string]int{}
	broken := harnessBroken
	var brokenMsgs []string
	knownHits := map[string]int{}
	skipSamples := map[string][]string{}
	var inconclusiveSamples []map[string]any
	var unlisted []Result
	sort.SliceStable(all, func(i, j int) bool { return all[i].Case < all[j].Case })
	for i := range all {
		r := &all[i]
		verdicts[r.Verdict]++
		switch r.Verdict {
		case Skip:
			for k, v := range r.Counters {
				counters["skip:"+k] += v
				if len(skipSamples[k]) < 4 {
					skipSamples[k] = append(skipSamples[k], head(r.Message, 300))
				}
			}
			continue
		case "broken":
			broken = true
			brokenMsgs = append(brokenMsgs, head(r.Message, 9000))
			continue
		}
		evaluations++
		if r.Verdict == Inconclusive && len(inconclusiveSamples) < 10 {
			inconclusiveSamples = append(inconclusiveSamples, map[string]any{"case": r.Case, "symptom": r.Symptom, "message": head(r.Message, 1500)})
		}
		for k, v := range r.Counters {
			counters[k] += v
		}
		for _, t := range r.Traces {
			traces[t] = true
		}
		for _, t := range r.Tags {
			tagHist[t]++
		}
		if r.NonTrivial && r.Key != "" && r.Verdict != Inconclusive {
			distinct[r.Key] = true
		}
		if r.Sample != nil && len(samples) < 5 {
			samples = append(samples, r.Sample)
		}
		if r.Verdict == Violated {
			matched := false
			for fi := range ff.Findings {
				f := &ff.Findings[fi]
				if f.Property == p.ID() && f.Matches(r) {
					knownHits[f.ID]++
					matched = true
					break
				}
			}
			if !matched {
				unlisted = append(unlisted, *r)
			}
		}
	}
	// print known findings (those with a witness are replayed by the caller; here: those hit)
	ids := make([]string, 0, len(knownHits))
	for id := range knownHits {
		ids = append(ids, id)
	}
	sort.Strings(ids)
	for _, id := range ids {
		for _, f := range ff.Findings {
			if f.ID == id && f.Witness == "" {
				fmt.Printf("KNOWN-FINDING: property=%s %s %s (hit %d times in this run)\n", p.ID(), f.ID, f.What, knownHits[id])
			}
		}
	}
	// dump every unlisted violation for triage
	{
		os.MkdirAll(filepath.Join(workDir(), "last"), 0o755)
		f, err := os.Create(filepath.Join(workDir(), "last", p.ID()+"-violations.jsonl"))
		if err == nil {
			enc := json.NewEncoder(f)
			for _, r := range unlisted {
				enc.Encode(r)
			}
			f.Close()
		}
	}
	// group unlisted violations by symptom for printing
	bySym := map[string][]Result{}
	var symOrder []string
	for _, r := range unlisted {
		s := r.Symptom
		if _, ok := bySym[s]; !ok {
			symOrder = append(symOrder, s)
		}
		bySym[s] = append(bySym[s], r)
	}
	maxPrint := 40
	printed := 0
	for _, s := range symOrder {
		rs := bySym[s]
		for i, r := range rs {
			if i >= 3 || printed >= maxPrint {
				break
			}
			path := writeReplay(p, c, &r)
			fmt.Printf("VIOLATION property=%s replay=%s\n", p.ID(), path)
			fmt.Printf("  symptom: %s\n  message: %s\n  tags: %v\n", r.Symptom, head(strings.ReplaceAll(r.Message, "\n", "\n    "), 1500), r.Tags)
			printed++
		}
		if len(rs) > 3 {
			fmt.Printf("  (... %d more violations with symptom %q)\n", len(rs)-3, head(s, 120))
		}
	}
	if broken {
		for _, m := range brokenMsgs {
			fmt.Println("BROKEN:", m)
		}
		if harnessBroken {
			fmt.Println("BROKEN: the race detector reported a race whose frames are all harness code (see .work/race/" + p.ID() + "); no verdict")
		}
	}
	if len(distinct) < 2 && !broken && len(unlisted) == 0 {
		fmt.Printf("BROKEN: run observed too little (distinct non-trivial cases: %d)\n", len(distinct))
		broken = true
	}
	if len(samples) == 0 {
		samples = append(samples, "no sample recorded")
	}
	cov := map[string]any{
		"evaluations":          evaluations,
		"distinct_nontrivial":  len(distinct),
		"rule":                 p.Rule(),
		"samples":              samples,
		"verdicts":             verdicts,
		"feature_tags":         tagHist,
		"counters":             counters,
		"distinct_traces":      len(traces),
		"known_findings_hit":   knownHits,
		"unlisted_violations":  len(unlisted),
		"cases_planned":        p.NumCases(c),
		"skip_samples":         skipSamples,
		"inconclusive_samples": inconclusiveSamples,
	}
	if ex, ok := p.(Exhaustive); ok && ex.Exhaustive(c) {
		cov["exhaustive"] = true
	}
	for k, v := range extra {
		cov[k] = v
	}
	ev := map[string]any{
		"property_id": p.ID(),
		"tier":        c.Tier,
		"seed":        c.Seed,
		"level":       p.Level(),
		"coverage":    cov,
		"assumptions": p.Assumptions(),
		"wall_s":      time.Since(start).Seconds(),
		"violations":  len(unlisted),
	}
	os.MkdirAll(evidenceDir(), 0o755)
	b, _ := json.MarshalIndent(ev, "", " ")
	os.WriteFile(filepath.Join(evidenceDir(), p.ID()+".json"), b, 0o644)
	fmt.Printf("%s %s seed=%d: %d evaluations, %d distinct non-trivial, verdicts=%v, known=%v, unlisted violations=%d, wall=%.1fs\n",
		p.ID(), c.Tier, c.Seed, evaluations, len(distinct), verdicts, knownHits, len(unlisted), time.Since(start).Seconds())
	if len(unlisted) > 0 {
		return 1
	}
	if broken {
		return 2
	}
	return 0
}

// Replay re-executes a replay file in this process and prints verdict lines.
func Replay(path string) int {
	b, err := os.ReadFile(path)
	if err != nil {
		fmt.Println("cannot read replay:", err)
		return 2
	}
	var rf ReplayFile
	if err := json.Unmarshal(b, &rf); err != nil {
		fmt.Println("bad replay file:", err)
		return 2
	}
	p := Registry[rf.Property]
	if p == nil {
		fmt.Println("unknown property", rf.Property)
		return 2
	}
	if bytes.HasPrefix(bytes.TrimSpace(rf.Spec), []byte(`{"race"`)) {
		fmt.Println("race replays: re-run the check; races are schedule dependent. Recorded report:")
		fmt.Println(rf.Message)
		return 1
	}
	c := &Ctx{Seed: rf.Seed, Tier: rf.Tier}
	rs := p.Exec(c, rf.Case, rf.Spec)
	code := 0
	for _, r := range rs {
		if r.Verdict == Violated {
			fmt.Printf("VIOLATION property=%s replay=%s\n  symptom: %s\n  message: %s\n", rf.Property, path, r.Symptom, head(r.Message, 2000))
			code = 1
		}
	}
	if code == 0 {
		fmt.Printf("replay of %s: held (%d results)\n", path, len(rs))
	}
	return code
}

// WorkerWitness executes the spec stored in a witness (replay-format) file.
func WorkerWitness(p Property, c *Ctx, witness, journal, out string) int {
	b, err := os.ReadFile(witness)
	if err != nil {
		fmt.Fprintln(os.Stderr, "witness:", err)
		return 2
	}
	var rf ReplayFile
	if err := json.Unmarshal(b, &rf); err != nil {
		fmt.Fprintln(os.Stderr, "witness:", err)
		return 2
	}
	jf, _ := os.OpenFile(journal, os.O_CREATE|os.O_WRONLY|os.O_TRUNC, 0o644)
	of, _ := os.OpenFile(out, os.O_CREATE|os.O_WRONLY|os.O_TRUNC, 0o644)
	enc := json.NewEncoder(of)
	jl, _ := json.Marshal(journalLine{Case: 0, Spec: rf.Spec})
	jf.Write(append(jl, '\n'))
	for _, r := range p.Exec(c, 0, rf.Spec) {
		if r.Verdict == Violated && r.Spec == nil {
			r.Spec = rf.Spec
		}
		enc.Encode(r)
	}
	jf.Write([]byte("{\"case\":-1}\n"))
	jf.Close()
	of.Close()
	return 0
}

// runWitness executes a witness file in a child process; crash is non-nil when the child died.
func runWitness(p Property, c *Ctx, f *Finding) (rs []Result, crash *Result) {
	path := filepath.Join(Root, f.Witness)
	dir := filepath.Join(workDir(), "run", p.ID())
	os.MkdirAll(dir, 0o755)
	base := filepath.Join(dir, "witness-"+f.ID)
	cmd := exec.Command(selfExe(false), "worker", "--prop", p.ID(), "--tier", c.Tier, "--seed", strconv.FormatInt(c.Seed, 10),
		"--witness", path, "--journal", base+".journal", "--out", base+".out")
	ef, _ := os.Create(base + ".stderr")
	cmd.Stdout, cmd.Stderr = ef, ef
	cmd.Env = append(os.Environ(), "GORACE=halt_on_error=0 exitcode=0 log_path="+base+".race", "GOTRACEBACK=all")
	done := make(chan error, 1)
	if err := cmd.Start(); err != nil {
		return nil, nil
	}
	go func() { done <- cmd.Wait() }()
	select {
	case <-done:
	case <-time.After(2 * time.Minute):
		cmd.Process.Kill()
		<-done
		return nil, nil
	}
	ef.Close()
	rs = readResults(base + ".out")
	_, spec, finished := readJournal(base + ".journal")
	if !finished {
		eb, _ := os.ReadFile(base + ".stderr")
		crash = &Result{Verdict: Violated, Symptom: CrashSymptom(string(eb)), Message: tail(string(eb), 2000), Spec: spec, Tags: []string{"process-death"}}
	}
	return rs, crash
}

// replayWitness runs one known-finding witness in a child and reports whether it still violates.
func replayWitness(p Property, c *Ctx, f *Finding) (still bool, note string) {
	path := filepath.Join(Root, f.Witness)
	dir := filepath.Join(workDir(), "run", p.ID())
	os.MkdirAll(dir, 0o755)
	base := filepath.Join(dir, "witness-"+f.ID)
	cmd := exec.Command(selfExe(false), "worker", "--prop", p.ID(), "--tier", c.Tier, "--seed", strconv.FormatInt(c.Seed, 10),
		"--witness", path, "--journal", base+".journal", "--out", base+".out")
	ef, _ := os.Create(base + ".stderr")
	cmd.Stdout, cmd.Stderr = ef, ef
	cmd.Env = append(os.Environ(), "GORACE=halt_on_error=0 exitcode=0 log_path="+base+".race", "GOTRACEBACK=all")
	done := make(chan error, 1)
	if err := cmd.Start(); err != nil {
		return false, "cannot start: " + err.Error()
	}
	go func() { done <- cmd.Wait() }()
	var werr error
	select {
	case werr = <-done:
	case <-time.After(2 * time.Minute):
		cmd.Process.Kill()
		werr = <-done
		return false, "witness replay timed out"
	}
	ef.Close()
	rs := readResults(base + ".out")
	_, spec, finished := readJournal(base + ".journal")
	if werr != nil || !finished {
		eb, _ := os.ReadFile(base + ".stderr")
		r := Result{Verdict: Violated, Symptom: CrashSymptom(string(eb)), Message: tail(string(eb), 2000), Spec: spec, Tags: append([]string{"process-death"}, f.TagsAll...)}
		rs = append(rs, r)
	}
	for i := range rs {
		if rs[i].Verdict != Violated {
			continue
		}
		// the witness carries its own tags; symptom must still match
		probe := rs[i]
		probe.Tags = append(append([]string{}, probe.Tags...), f.TagsAll...)
		probe.Tags = append(probe.Tags, f.TagsAny...)
		if f.Matches(&probe) {
			return true, rs[i].Symptom
		}
		note = "violates with a different symptom: " + rs[i].Symptom
	}
	if note == "" {
		note = "no longer violates"
	}
	return false, note
}
