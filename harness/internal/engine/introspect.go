package engine

import (
	"sort"
	"strings"
	"sync"

	"github.com/vektah/gqlparser/v2/ast"
)

func isIntrospectionType(n string) bool {
	switch n {
	case "__Schema", "__Type", "__Field", "__InputValue", "__EnumValue", "__Directive":
		return true
	}
	return false
}

// typeRef is the payload of a __Type object: either a named definition or a wrapper.
type typeRef struct {
	def *ast.Definition
	t   *ast.Type // wrapper (list / non-null) when def == nil
}

type fieldRef struct{ fd *ast.FieldDefinition }
type inputRef struct {
	name, desc string
	t          *ast.Type
	def        *ast.Value
}
type enumRef struct{ ev *ast.EnumValueDefinition }
type dirRef struct{ d *ast.DirectiveDefinition }

func (e *exec) typeObj(t *ast.Type) any {
	if t == nil {
		return nil
	}
	if t.NonNull || t.Elem != nil {
		return &Obj{Type: "__Type", Val: typeRef{t: t}}
	}
	def := e.s.Types[t.NamedType]
	if def == nil {
		return nil
	}
	return &Obj{Type: "__Type", Val: typeRef{def: def}}
}

func (e *exec) namedTypeObj(name string) any {
	def := e.s.Types[name]
	if def == nil {
		return nil
	}
	return &Obj{Type: "__Type", Val: typeRef{def: def}}
}

func deprecation(dl ast.DirectiveList) (bool, any) {
	d := dl.ForName("deprecated")
	if d == nil {
		return false, nil
	}
	if a := d.Arguments.ForName("reason"); a != nil {
		if a.Value.Kind == ast.NullValue {
			return true, nil
		}
		return true, a.Value.Raw
	}
	return true, "No longer supported"
}

// refStyle holds the schemas whose introspection answers print default values the way the reference
// implementation does ("[A, B]", "{a: 1, b: 2}") instead of compactly ("[A,B]", "{a:1,b:2}"); both are the same literal.
var refStyle sync.Map

// UseReferenceStyle makes introspection answers for s print composite default values in the reference style.
func UseReferenceStyle(s *ast.Schema) { refStyle.Store(s, true) }

// ForgetStyle drops s from the style table.
func ForgetStyle(s *ast.Schema) { refStyle.Delete(s) }

func printValueRef(v *ast.Value) string {
	if v == nil {
		return ""
	}
	switch v.Kind {
	case ast.ListValue:
		parts := make([]string, len(v.Children))
		for i, c := range v.Children {
			parts[i] = printValueRef(c.Value)
		}
		return "[" + strings.Join(parts, ", ") + "]"
	case ast.ObjectValue:
		parts := make([]string, len(v.Children))
		for i, c := range v.Children {
			parts[i] = c.Name + ": " + printValueRef(c.Value)
		}
		return "{" + strings.Join(parts, ", ") + "}"
	}
	return v.String()
}

func strOrNil(s string) any {
	if s == "" {
		return nil
	}
	return s
}

func inputObjs(args ast.ArgumentDefinitionList) []any {
	out := make([]any, 0, len(args))
	for _, a := range args {
		out = append(out, &Obj{Type: "__InputValue", Val: inputRef{a.Name, a.Description, a.Type, a.DefaultValue}})
	}
	return out
}

func (e *exec) introspect(obj *Obj, objType *ast.Definition, fd *ast.FieldDefinition, args map[string]any) any {
	switch fd.Name {
	case "__schema":
		return &Obj{Type: "__Schema"}
	case "__type":
		n, _ := args["name"].(string)
		return e.namedTypeObj(n)
	}
	switch objType.Name {
	case "__Schema":
		switch fd.Name {
		case "description":
			return strOrNil(e.s.Description)
		case "types":
			names := make([]string, 0, len(e.s.Types))
			for n := range e.s.Types {
				names = append(names, n)
			}
			sort.Strings(names)
			out := make([]any, 0, len(names))
			for _, n := range names {
				out = append(out, e.namedTypeObj(n))
			}
			return out
		case "queryType":
			return e.namedTypeObj(e.s.Query.Name)
		case "mutationType":
			if e.s.Mutation == nil {
				return nil
			}
			return e.namedTypeObj(e.s.Mutation.Name)
		case "subscriptionType":
			if e.s.Subscription == nil {
				return nil
			}
			return e.namedTypeObj(e.s.Subscription.Name)
		case "directives":
			names := make([]string, 0, len(e.s.Directives))
			for n := range e.s.Directives {
				names = append(names, n)
			}
			sort.Strings(names)
			out := make([]any, 0, len(names))
			for _, n := range names {
				out = append(out, &Obj{Type: "__Directive", Val: dirRef{e.s.Directives[n]}})
			}
			return out
		}
	case "__Type":
		tr := obj.Val.(typeRef)
		if tr.def == nil {
			switch fd.Name {
			case "kind":
				if tr.t.NonNull {
					return "NON_NULL"
				}
				return "LIST"
			case "ofType":
				if tr.t.NonNull {
					inner := *tr.t
					inner.NonNull = false
					return e.typeObj(&inner)
				}
				return e.typeObj(tr.t.Elem)
			}
			return nil
		}
		def := tr.def
		switch fd.Name {
		case "kind":
			return string(def.Kind)
		case "name":
			return def.Name
		case "description":
			return strOrNil(def.Description)
		case "specifiedByURL":
			if d := def.Directives.ForName("specifiedBy"); d != nil {
				if a := d.Arguments.ForName("url"); a != nil {
					return a.Value.Raw
				}
			}
			return nil
		case "fields":
			if def.Kind != ast.Object && def.Kind != ast.Interface {
				return nil
			}
			incl, _ := args["includeDeprecated"].(bool)
			out := []any{}
			for _, f := range def.Fields {
				if strings.HasPrefix(f.Name, "__") {
					continue
				}
				if dep, _ := deprecation(f.Directives); dep && !incl {
					continue
				}
				out = append(out, &Obj{Type: "__Field", Val: fieldRef{f}})
			}
			return out
		case "interfaces":
			if def.Kind != ast.Object && def.Kind != ast.Interface {
				return nil
			}
			out := []any{}
			for _, i := range def.Interfaces {
				out = append(out, e.namedTypeObj(i))
			}
			return out
		case "possibleTypes":
			if def.Kind != ast.Interface && def.Kind != ast.Union {
				return nil
			}
			out := []any{}
			for _, pt := range e.s.PossibleTypes[def.Name] {
				// the possible types of an abstract type are object types; gqlparser also files the interfaces
				// that implement an interface there (it needs them for validation)
				if pt.Kind != ast.Object {
					continue
				}
				out = append(out, e.namedTypeObj(pt.Name))
			}
			return out
		case "enumValues":
			if def.Kind != ast.Enum {
				return nil
			}
			incl, _ := args["includeDeprecated"].(bool)
			out := []any{}
			for _, ev := range def.EnumValues {
				if dep, _ := deprecation(ev.Directives); dep && !incl {
					continue
				}
				out = append(out, &Obj{Type: "__EnumValue", Val: enumRef{ev}})
			}
			return out
		case "inputFields":
			if def.Kind != ast.InputObject {
				return nil
			}
			out := []any{}
			for _, f := range def.Fields {
				out = append(out, &Obj{Type: "__InputValue", Val: inputRef{f.Name, f.Description, f.Type, f.DefaultValue}})
			}
			return out
		case "ofType":
			return nil
		}
	case "__Field":
		f := obj.Val.(fieldRef).fd
		switch fd.Name {
		case "name":
			return f.Name
		case "description":
			return strOrNil(f.Description)
		case "args":
			return inputObjs(f.Arguments)
		case "type":
			return e.typeObj(f.Type)
		case "isDeprecated":
			d, _ := deprecation(f.Directives)
			return d
		case "deprecationReason":
			_, r := deprecation(f.Directives)
			return r
		}
	case "__InputValue":
		iv := obj.Val.(inputRef)
		switch fd.Name {
		case "name":
			return iv.name
		case "description":
			return strOrNil(iv.desc)
		case "type":
			return e.typeObj(iv.t)
		case "defaultValue":
			if iv.def == nil {
				return nil
			}
			if _, ok := refStyle.Load(e.s); ok {
				return printValueRef(iv.def)
			}
			return iv.def.String()
		}
	case "__EnumValue":
		ev := obj.Val.(enumRef).ev
		switch fd.Name {
		case "name":
			return ev.Name
		case "description":
			return strOrNil(ev.Description)
		case "isDeprecated":
			d, _ := deprecation(ev.Directives)
			return d
		case "deprecationReason":
			_, r := deprecation(ev.Directives)
			return r
		}
	case "__Directive":
		d := obj.Val.(dirRef).d
		switch fd.Name {
		case "name":
			return d.Name
		case "description":
			return strOrNil(d.Description)
		case "locations":
			out := make([]any, 0, len(d.Locations))
			for _, l := range d.Locations {
				out = append(out, string(l))
			}
			return out
		case "args":
			return inputObjs(d.Arguments)
		case "isRepeatable":
			return d.IsRepeatable
		}
	}
	return nil
}
