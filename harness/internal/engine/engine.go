// Package engine is a small reference GraphQL executor used as the oracle
// ("what a single server would return"), as the brain of every fake service,
// and as a spec-shaped introspection responder.  It is part of the trusted base.
package engine

import (
	"encoding/json"
	"fmt"
	"sort"
	"strconv"

	"github.com/vektah/gqlparser/v2"
	"github.com/vektah/gqlparser/v2/ast"
	"github.com/vektah/gqlparser/v2/validator"
)

// Obj is a resolved object value.
type Obj struct {
	Type  string // concrete object type name
	Ident string // identity (entity id, or path for embedded objects)
	Val   any    // payload for introspection meta objects
}

// Resolver provides field values.  Returned values: nil, bool, int64, float64,
// string, json-like values for custom scalars, *Obj, or []any of those.
type Resolver interface {
	Resolve(s *ast.Schema, obj *Obj, fd *ast.FieldDefinition, args map[string]any) any
}

// Error is an execution error.
type Error struct {
	Message string
	Path    []any
}

func (e *Error) Error() string { return e.Message }

// Result of one execution.
type Result struct {
	Data   map[string]any
	Errors []*Error
}

// Request is one GraphQL request.
type Request struct {
	Query         string
	Variables     map[string]any
	OperationName string
}

// ValidationError is returned by Prepare when the document is not valid.
type ValidationError struct{ Msg string }

func (v *ValidationError) Error() string { return v.Msg }

// Prepare parses + validates and selects the operation.
func Prepare(s *ast.Schema, req Request) (*ast.QueryDocument, *ast.OperationDefinition, error) {
	doc, errs := gqlparser.LoadQuery(s, req.Query)
	if errs != nil {
		return nil, nil, &ValidationError{errs.Error()}
	}
	var op *ast.OperationDefinition
	if req.OperationName != "" {
		op = doc.Operations.ForName(req.OperationName)
	} else if len(doc.Operations) == 1 {
		op = doc.Operations[0]
	}
	if op == nil {
		return nil, nil, &ValidationError{"cannot select operation"}
	}
	return doc, op, nil
}

type exec struct {
	s    *ast.Schema
	doc  *ast.QueryDocument
	vars map[string]any
	r    Resolver
	errs []*Error
}

// Execute runs req against schema s with resolver r.  rootIdent is the identity
// given to the root object (e.g. "Query").
func Execute(s *ast.Schema, req Request, r Resolver, rootIdent string) *Result {
	doc, op, err := Prepare(s, req)
	if err != nil {
		return &Result{Errors: []*Error{{Message: err.Error()}}}
	}
	return ExecuteOp(s, doc, op, req.Variables, r, rootIdent)
}

// ExecuteOp runs a prepared operation.
func ExecuteOp(s *ast.Schema, doc *ast.QueryDocument, op *ast.OperationDefinition, rawVars map[string]any, r Resolver, rootIdent string) *Result {
	vars, verr := validator.VariableValues(s, op, normalizeJSON(rawVars).(map[string]any))
	if verr != nil {
		return &Result{Errors: []*Error{{Message: "variables: " + verr.Error()}}}
	}
	var rootType *ast.Definition
	switch op.Operation {
	case ast.Query:
		rootType = s.Query
	case ast.Mutation:
		rootType = s.Mutation
	case ast.Subscription:
		rootType = s.Subscription
	}
	if rootType == nil {
		return &Result{Errors: []*Error{{Message: "schema has no root for " + string(op.Operation)}}}
	}
	if rootIdent == "" {
		rootIdent = rootType.Name
	}
	e := &exec{s: s, doc: doc, vars: vars, r: r}
	root := &Obj{Type: rootType.Name, Ident: rootIdent}
	data, ok := e.selectionSet(root, rootType, []ast.SelectionSet{op.SelectionSet}, nil)
	if !ok {
		return &Result{Data: nil, Errors: e.errs}
	}
	return &Result{Data: data, Errors: e.errs}
}

// normalizeJSON makes sure values look like what encoding/json produces with
// UseNumber off, except that nil maps become empty maps at the top.
func normalizeJSON(v any) any {
	if v == nil {
		return map[string]any{}
	}
	if m, ok := v.(map[string]any); ok && m == nil {
		return map[string]any{}
	}
	return v
}

type collected struct {
	key    string
	fields []*ast.Field
}

func (e *exec) skip(dl ast.DirectiveList) bool {
	if d := dl.ForName("skip"); d != nil {
		if v, ok := d.ArgumentMap(e.vars)["if"].(bool); ok && v {
			return true
		}
	}
	if d := dl.ForName("include"); d != nil {
		if v, ok := d.ArgumentMap(e.vars)["if"].(bool); ok && !v {
			return true
		}
	}
	return false
}

func (e *exec) typeApplies(cond string, obj *ast.Definition) bool {
	if cond == "" || cond == obj.Name {
		return true
	}
	for _, pt := range e.s.PossibleTypes[cond] {
		if pt.Name == obj.Name {
			return true
		}
	}
	return false
}

func (e *exec) collect(objType *ast.Definition, sets []ast.SelectionSet, visited map[string]bool, out *[]*collected, idx map[string]int) {
	for _, set := range sets {
		for _, sel := range set {
			switch sel := sel.(type) {
			case *ast.Field:
				if e.skip(sel.Directives) {
					continue
				}
				key := sel.Alias
				if key == "" {
					key = sel.Name
				}
				if i, ok := idx[key]; ok {
					(*out)[i].fields = append((*out)[i].fields, sel)
				} else {
					idx[key] = len(*out)
					*out = append(*out, &collected{key: key, fields: []*ast.Field{sel}})
				}
			case *ast.InlineFragment:
				if e.skip(sel.Directives) || !e.typeApplies(sel.TypeCondition, objType) {
					continue
				}
				e.collect(objType, []ast.SelectionSet{sel.SelectionSet}, visited, out, idx)
			case *ast.FragmentSpread:
				if e.skip(sel.Directives) || visited[sel.Name] {
					continue
				}
				visited[sel.Name] = true
				def := e.doc.Fragments.ForName(sel.Name)
				if def == nil || !e.typeApplies(def.TypeCondition, objType) {
					continue
				}
				e.collect(objType, []ast.SelectionSet{def.SelectionSet}, visited, out, idx)
			}
		}
	}
}

func (e *exec) selectionSet(obj *Obj, objType *ast.Definition, sets []ast.SelectionSet, path []any) (map[string]any, bool) {
	var cs []*collected
	e.collect(objType, sets, map[string]bool{}, &cs, map[string]int{})
	res := make(map[string]any, len(cs))
	for _, c := range cs {
		f := c.fields[0]
		p := append(append([]any{}, path...), c.key)
		if f.Name == "__typename" {
			res[c.key] = objType.Name
			continue
		}
		fd := objType.Fields.ForName(f.Name)
		if fd == nil && objType.Name == e.s.Query.Name {
			switch f.Name {
			case "__schema":
				fd = &ast.FieldDefinition{Name: "__schema", Type: ast.NonNullNamedType("__Schema", nil)}
			case "__type":
				fd = &ast.FieldDefinition{Name: "__type", Type: ast.NamedType("__Type", nil),
					Arguments: ast.ArgumentDefinitionList{{Name: "name", Type: ast.NonNullNamedType("String", nil)}}}
			}
		}
		if fd == nil {
			e.errs = append(e.errs, &Error{Message: fmt.Sprintf("no field %s on %s", f.Name, objType.Name), Path: p})
			res[c.key] = nil
			continue
		}
		args := e.args(f, fd)
		var raw any
		if isIntrospectionType(objType.Name) || f.Name == "__schema" || f.Name == "__type" {
			raw = e.introspect(obj, objType, fd, args)
		} else {
			raw = e.r.Resolve(e.s, obj, fd, args)
		}
		var subs []ast.SelectionSet
		for _, ff := range c.fields {
			subs = append(subs, ff.SelectionSet)
		}
		v, ok := e.complete(fd.Type, raw, subs, p)
		if !ok {
			return nil, false
		}
		res[c.key] = v
	}
	return res, true
}

// complete returns (value, ok); ok=false means a null must propagate upwards.
func (e *exec) complete(t *ast.Type, raw any, subs []ast.SelectionSet, path []any) (any, bool) {
	if t.NonNull {
		inner := *t
		inner.NonNull = false
		v, ok := e.complete(&inner, raw, subs, path)
		if !ok {
			return nil, false
		}
		if v == nil {
			e.errs = append(e.errs, &Error{Message: "null in non-null position", Path: path})
			return nil, false
		}
		return v, true
	}
	if raw == nil {
		return nil, true
	}
	if t.Elem != nil {
		l, ok := raw.([]any)
		if !ok {
			e.errs = append(e.errs, &Error{Message: "expected list", Path: path})
			return nil, true
		}
		out := make([]any, len(l))
		for i, el := range l {
			v, ok := e.complete(t.Elem, el, subs, append(append([]any{}, path...), i))
			if !ok {
				return nil, true // nullable list absorbs
			}
			out[i] = v
		}
		return out, true
	}
	def := e.s.Types[t.NamedType]
	if def == nil {
		e.errs = append(e.errs, &Error{Message: "unknown type " + t.NamedType, Path: path})
		return nil, true
	}
	switch def.Kind {
	case ast.Scalar, ast.Enum:
		return jsonValue(raw), true
	}
	o, ok := raw.(*Obj)
	if !ok {
		e.errs = append(e.errs, &Error{Message: "expected object", Path: path})
		return nil, true
	}
	ct := e.s.Types[o.Type]
	if ct == nil || ct.Kind != ast.Object {
		e.errs = append(e.errs, &Error{Message: "unknown concrete type " + o.Type, Path: path})
		return nil, true
	}
	v, ok := e.selectionSet(o, ct, subs, path)
	if !ok {
		return nil, true
	}
	return v, true
}

// jsonValue converts leaf values into what a JSON round trip yields.
func jsonValue(v any) any {
	switch x := v.(type) {
	case int:
		return float64(x)
	case int64:
		return float64(x)
	case ast.DefinitionKind:
		return string(x)
	case ast.DirectiveLocation:
		return string(x)
	}
	return v
}

func (e *exec) args(f *ast.Field, fd *ast.FieldDefinition) map[string]any {
	out := map[string]any{}
	for _, ad := range fd.Arguments {
		var val any
		has := false
		if a := f.Arguments.ForName(ad.Name); a != nil {
			if a.Value.Kind == ast.Variable {
				if v, ok := e.vars[a.Value.Raw]; ok {
					val, has = v, true
				}
			} else {
				v, err := a.Value.Value(e.vars)
				if err == nil {
					val, has = v, true
				}
			}
		}
		if !has && ad.DefaultValue != nil {
			v, err := ad.DefaultValue.Value(nil)
			if err == nil {
				val, has = v, true
			}
		}
		if !has {
			continue
		}
		out[ad.Name] = Coerce(e.s, ad.Type, val)
	}
	return out
}

// Coerce canonicalises an input value for type t: numbers by declared type,
// single value -> list, input-object defaults applied, keys complete.
func Coerce(s *ast.Schema, t *ast.Type, v any) any {
	if v == nil {
		return nil
	}
	if t.Elem != nil {
		l, ok := v.([]any)
		if !ok {
			return []any{Coerce(s, t.Elem, v)}
		}
		out := make([]any, len(l))
		for i := range l {
			out[i] = Coerce(s, t.Elem, l[i])
		}
		return out
	}
	def := s.Types[t.NamedType]
	if def == nil {
		return v
	}
	switch def.Kind {
	case ast.InputObject:
		m, ok := v.(map[string]any)
		if !ok {
			return v
		}
		out := map[string]any{}
		for _, fd := range def.Fields {
			fv, has := m[fd.Name]
			if !has && fd.DefaultValue != nil {
				dv, err := fd.DefaultValue.Value(nil)
				if err == nil {
					fv, has = dv, true
				}
			}
			if has {
				out[fd.Name] = Coerce(s, fd.Type, fv)
			}
		}
		return out
	case ast.Scalar:
		switch def.Name {
		case "Int":
			return toInt(v)
		case "Float":
			switch x := v.(type) {
			case int64:
				return float64(x)
			case int:
				return float64(x)
			case json.Number:
				f, _ := x.Float64()
				return f
			}
			return v
		case "ID":
			switch x := v.(type) {
			case int64:
				return strconv.FormatInt(x, 10)
			case float64:
				return strconv.FormatInt(int64(x), 10)
			}
			return v
		}
	}
	return v
}

func toInt(v any) any {
	switch x := v.(type) {
	case float64:
		return int64(x)
	case int:
		return int64(x)
	case json.Number:
		i, _ := x.Int64()
		return i
	}
	return v
}

// Canon renders a coerced argument map deterministically.
func Canon(args map[string]any) string {
	if len(args) == 0 {
		return ""
	}
	keys := make([]string, 0, len(args))
	for k := range args {
		keys = append(keys, k)
	}
	sort.Strings(keys)
	out := ""
	for i, k := range keys {
		if i > 0 {
			out += ","
		}
		b, _ := json.Marshal(canonVal(args[k]))
		out += k + ":" + string(b)
	}
	return out
}

func canonVal(v any) any {
	switch x := v.(type) {
	case int:
		return float64(x)
	case int64:
		return float64(x)
	case json.Number:
		f, _ := x.Float64()
		return f
	case []any:
		o := make([]any, len(x))
		for i := range x {
			o[i] = canonVal(x[i])
		}
		return o
	case map[string]any:
		o := map[string]any{}
		for k, vv := range x {
			o[k] = canonVal(vv)
		}
		return o
	}
	return v
}
