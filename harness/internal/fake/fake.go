// Package fake implements downstream GraphQL services that really evaluate the
// sub-requests they receive, an in-memory transport, and the shared event log.
package fake

import (
	"bytes"
	"compress/gzip"
	"crypto/sha1"
	"encoding/hex"
	"encoding/json"
	"errors"
	"fmt"
	"io"
	"mime"
	"mime/multipart"
	"net"
	"net/http"
	"os"
	"strings"
	"sync"
	"sync/atomic"
	"syscall"
	"time"

	"verif/harness/internal/engine"
	"verif/harness/internal/gen"

	"github.com/vektah/gqlparser/v2"
	"github.com/vektah/gqlparser/v2/ast"
)

// FileInfo describes one file part received by a service.
type FileInfo struct {
	Key   string   `json:"key"`
	Name  string   `json:"name"`
	Bytes []byte   `json:"bytes"`
	Paths []string `json:"paths"`
}

// Event is one sub-request received by a service (or a client-side marker).
type Event struct {
	Seq       int64          `json:"seq"`
	Service   string         `json:"service"`
	CallID    int64          `json:"call"`
	Pos       int            `json:"pos"`
	BatchSize int            `json:"batch"`
	Multipart bool           `json:"multipart,omitempty"`
	Boundary  string         `json:"boundary,omitempty"` // multipart calls: the delimiter the gateway chose
	OpKw      string         `json:"kw"`
	OpName    string         `json:"op_name,omitempty"`
	Query     string         `json:"query"`
	Variables map[string]any `json:"variables,omitempty"`
	Files     []FileInfo     `json:"files,omitempty"`
	Valid     bool           `json:"valid"`
	ValidErr  string         `json:"valid_err,omitempty"`
	VarErr    string         `json:"var_err,omitempty"`
	Fault     string         `json:"fault,omitempty"`
	RootFlds  []string       `json:"roots,omitempty"`
	Response  any            `json:"-"`
	Marker    string         `json:"marker,omitempty"`
}

// Log is the shared, mutex-protected event log of one rig.
type Log struct {
	mu     sync.Mutex
	seq    int64
	calls  int64
	Events []*Event
	Sent   [][]byte // body of every answer actually sent (after fault injection)
	bodies []*trackedBody
}

// trackedBody is a response body that remembers whether the caller read it to the end or closed it:
// net/http gives a connection back to its pool only then.
type trackedBody struct {
	r       *bytes.Reader
	status  int
	size    int
	drained int32
	closed  int32
}

func (b *trackedBody) Read(p []byte) (int, error) {
	n, err := b.r.Read(p)
	if err != nil {
		atomic.StoreInt32(&b.drained, 1)
	}
	return n, err
}

func (b *trackedBody) Close() error {
	atomic.StoreInt32(&b.closed, 1)
	return nil
}

func (l *Log) track(status int, body []byte) io.ReadCloser {
	b := &trackedBody{r: bytes.NewReader(body), status: status, size: len(body)}
	if l != nil {
		l.mu.Lock()
		l.bodies = append(l.bodies, b)
		l.mu.Unlock()
	}
	return b
}

// BodyStats returns how many non-empty answer bodies were handed to the caller and, of those, how many
// were neither read to the end nor closed (described as "status/size").
func (l *Log) BodyStats() (handed int, leaked []string) {
	l.mu.Lock()
	defer l.mu.Unlock()
	for _, b := range l.bodies {
		if b.size == 0 {
			continue
		}
		handed++
		if atomic.LoadInt32(&b.drained) == 0 && atomic.LoadInt32(&b.closed) == 0 {
			leaked = append(leaked, fmt.Sprintf("status-%d/%d-bytes", b.status, b.size))
		}
	}
	return
}

func (l *Log) addSent(b []byte) {
	l.mu.Lock()
	l.Sent = append(l.Sent, b)
	l.mu.Unlock()
}

// SentBodies returns a copy of the bodies sent so far.
func (l *Log) SentBodies() [][]byte {
	l.mu.Lock()
	defer l.mu.Unlock()
	return append([][]byte{}, l.Sent...)
}

func (l *Log) add(e *Event) {
	l.mu.Lock()
	l.seq++
	e.Seq = l.seq
	l.Events = append(l.Events, e)
	l.mu.Unlock()
}

// Mark appends a client-side marker and returns the index of the next event.
func (l *Log) Mark(m string) int {
	l.mu.Lock()
	defer l.mu.Unlock()
	l.seq++
	l.Events = append(l.Events, &Event{Seq: l.seq, Marker: m})
	return len(l.Events)
}

// Since returns a copy of the service events from index i on.
func (l *Log) Since(i int) []*Event {
	l.mu.Lock()
	defer l.mu.Unlock()
	var out []*Event
	for _, e := range l.Events[i:] {
		if e.Marker == "" {
			out = append(out, e)
		}
	}
	return out
}

func (l *Log) Len() int {
	l.mu.Lock()
	defer l.mu.Unlock()
	return len(l.Events)
}

func (l *Log) nextCall() int64 { return atomic.AddInt64(&l.calls, 1) }

// Calls returns the number of transport calls so far.
func (l *Log) Calls() int64 { return atomic.LoadInt64(&l.calls) }

// Call describes one transport call for the fault hook.
type Call struct {
	Service   *Service
	CallID    int64 // global per log, 1-based
	SvcCall   int   // per service, 1-based
	Requests  []*engine.Request
	Multipart bool
}

// Fault tells the transport how to corrupt the answer to a call.
type Fault struct {
	Kind string // see applyFault
	Pos  int    // element position for element-level kinds (-1: all)
	Errs []map[string]any
	// Gate, when non-nil, is waited on before the call is answered.
	Gate <-chan struct{}
}

// Service is one fake downstream.
type Service struct {
	Name   string
	URL    string
	Host   string
	SDL    string
	Schema *ast.Schema
	Data   *gen.Data
	Log    *Log

	mu       sync.Mutex
	svcCalls int
	// FaultFn, when set, is consulted once per transport call.
	FaultFn func(c *Call) *Fault
	// ElemHook, when set, may replace the answer of a single element.
	ElemHook func(ev *Event, resp map[string]any) map[string]any
	// Delay hook executed before answering (used for ordering / gating).
	Before func(c *Call)
	// After is called once the answer of a call has been computed.
	After func(c *Call)

	// TCPAddr, when set, makes the in-memory transport hand the calls for this service to a real net/http transport
	// (connection pool, keep-alive, its replay rules) talking to a loopback listener in front of the same evaluation.
	TCPAddr string
	tcpLn   net.Listener
	tcpSrv  *http.Server

	// Wire styles: variations a spec-abiding service may show without changing the meaning of its answers.
	EmptyErrors bool // successful answers carry "errors": []
	OKStatus    int  // status of successful answers (0: 200; 203, 207 ...)
	Redirect    bool // the registered path answers 307 to path + "/" (a router mounting the endpoint at /graphql/)
}

// path is the path part of the url the service is registered under.
func (s *Service) path() string {
	u := strings.TrimPrefix(strings.TrimPrefix(s.URL, "http://"), "ws://")
	if i := strings.Index(u, "/"); i >= 0 {
		return u[i:]
	}
	return "/"
}

// ApplyWire parses a comma separated list of wire styles (slash is handled by the caller: it is part of the url).
func (s *Service) ApplyWire(w string) {
	for _, f := range strings.Split(w, ",") {
		switch f {
		case "emptyerrs":
			s.EmptyErrors = true
		case "s203":
			s.OKStatus = 203
		case "s207":
			s.OKStatus = 207
		case "redirect":
			s.Redirect = true
		}
	}
}

func NewService(name, url, sdl string, data *gen.Data, log *Log) (*Service, error) {
	s, err := gqlparser.LoadSchema(&ast.Source{Name: name, Input: sdl})
	if err != nil {
		return nil, fmt.Errorf("service %s SDL does not load: %v", name, err)
	}
	host := strings.TrimPrefix(strings.TrimPrefix(url, "http://"), "ws://")
	if i := strings.Index(host, "/"); i >= 0 {
		host = host[:i]
	}
	if h := sha1.Sum([]byte(sdl)); h[0]%2 == 1 {
		// half of the services word the default values of their introspection answer like the reference implementation
		engine.UseReferenceStyle(s)
	}
	return &Service{Name: name, URL: url, Host: host, SDL: sdl, Schema: s, Data: data, Log: log}, nil
}

// Eval evaluates one request and logs the event.
func (s *Service) Eval(req *engine.Request, callID int64, pos, batch int, mp bool, files []FileInfo) (map[string]any, *Event) {
	return s.evalWith(req, callID, pos, batch, mp, files, "")
}

func (s *Service) evalWith(req *engine.Request, callID int64, pos, batch int, mp bool, files []FileInfo, boundary string) (map[string]any, *Event) {
	ev := &Event{Service: s.Name, CallID: callID, Pos: pos, BatchSize: batch, Multipart: mp, Boundary: boundary,
		Query: req.Query, Variables: req.Variables, OpName: req.OperationName, Files: files}
	resp := map[string]any{}
	doc, op, err := engine.Prepare(s.Schema, *req)
	if err != nil {
		ev.Valid = false
		ev.ValidErr = err.Error()
		resp["errors"] = []any{map[string]any{"message": "downstream validation: " + err.Error()}}
		resp["data"] = nil
	} else {
		ev.Valid = true
		ev.OpKw = string(op.Operation)
		for _, sel := range op.SelectionSet {
			if f, ok := sel.(*ast.Field); ok {
				ev.RootFlds = append(ev.RootFlds, f.Name)
			}
		}
		vars := req.Variables
		if mp {
			vars = InjectUploads(vars, files)
		}
		res := engine.ExecuteOp(s.Schema, doc, op, vars, s.Data, "")
		if len(res.Errors) > 0 {
			var el []any
			for _, e := range res.Errors {
				if strings.HasPrefix(e.Message, "variables: ") {
					ev.VarErr = e.Message
				}
				el = append(el, map[string]any{"message": "downstream: " + e.Message})
			}
			resp["errors"] = el
		}
		if res.Data != nil {
			resp["data"] = res.Data
		} else {
			resp["data"] = nil
		}
	}
	if s.ElemHook != nil {
		resp = s.ElemHook(ev, resp)
	}
	ev.Response = resp
	s.Log.add(ev)
	return resp, ev
}

func stripUploads(v map[string]any) map[string]any { return v }

// UploadMarker is the value a fake service (and the reference) substitutes for an uploaded file.
func UploadMarker(name string, data []byte) string {
	h := sha1.Sum(data)
	return fmt.Sprintf("upload:%s:%s:%d", name, hex.EncodeToString(h[:6]), len(data))
}

// InjectUploads returns a deep copy of vars in which every path of every file holds the file's marker.
func InjectUploads(vars map[string]any, files []FileInfo) map[string]any {
	b, _ := json.Marshal(vars)
	var out map[string]any
	json.Unmarshal(b, &out)
	if out == nil {
		out = map[string]any{}
	}
	for _, f := range files {
		for _, p := range f.Paths {
			segs := strings.Split(p, ".")
			if len(segs) < 2 || segs[0] != "variables" {
				continue
			}
			setPath(out, segs[1:], UploadMarker(f.Name, f.Bytes))
		}
	}
	return out
}

func setPath(cur any, segs []string, val any) {
	for i, sg := range segs {
		last := i == len(segs)-1
		switch c := cur.(type) {
		case map[string]any:
			if last {
				c[sg] = val
				return
			}
			cur = c[sg]
		case []any:
			var idx int
			if _, err := fmt.Sscanf(sg, "%d", &idx); err != nil || idx < 0 || idx >= len(c) {
				return
			}
			if last {
				c[idx] = val
				return
			}
			cur = c[idx]
		default:
			return
		}
	}
}

// realTransport is shared by all services reached over TCP: one pool, connections kept alive between calls.
var realTransport = &http.Transport{MaxIdleConnsPerHost: 4, IdleConnTimeout: 30 * time.Second}

// ResetCalls restarts the per-service call numbering (after a warm-up that is not part of the judged run).
func (s *Service) ResetCalls() {
	s.mu.Lock()
	s.svcCalls = 0
	s.mu.Unlock()
}

// StartTCP puts a loopback HTTP listener in front of the service.
func (s *Service) StartTCP() error {
	ln, err := net.Listen("tcp", "127.0.0.1:0")
	if err != nil {
		return err
	}
	s.tcpLn, s.TCPAddr = ln, ln.Addr().String()
	s.tcpSrv = &http.Server{Handler: http.HandlerFunc(s.serveTCP)}
	go s.tcpSrv.Serve(ln)
	return nil
}

// StopTCP closes the listener and its connections.
func (s *Service) StopTCP() {
	if s.tcpSrv != nil {
		s.tcpSrv.Close()
	}
}

func (s *Service) serveTCP(w http.ResponseWriter, r *http.Request) {
	body, _ := io.ReadAll(r.Body)
	resp, err := s.ServeBytes(r, r.Header.Get("Content-Type"), body)
	if err != nil || resp == nil {
		// a transport fault: the service has read the request and goes away without a word
		if hj, ok := w.(http.Hijacker); ok {
			if c, _, herr := hj.Hijack(); herr == nil {
				if tc, ok := c.(*net.TCPConn); ok && err != nil && strings.Contains(err.Error(), "reset") {
					tc.SetLinger(0)
				}
				c.Close()
			}
		}
		return
	}
	b, _ := io.ReadAll(resp.Body)
	for k, v := range resp.Header {
		w.Header()[k] = v
	}
	w.WriteHeader(resp.StatusCode)
	w.Write(b)
}

// --------------------------------------------------------------- transport

// Transport is an in-memory http.RoundTripper dispatching by host.
type Transport struct {
	mu   sync.RWMutex
	svcs map[string]*Service
}

var Global = &Transport{svcs: map[string]*Service{}}

// Install makes Global the default transport of the process.
func Install() {
	http.DefaultTransport = Global
	http.DefaultClient = &http.Client{Transport: Global}
}

func (t *Transport) Register(s *Service) {
	t.mu.Lock()
	t.svcs[s.Host] = s
	t.mu.Unlock()
}

func (t *Transport) Unregister(s *Service) {
	engine.ForgetStyle(s.Schema)
	t.mu.Lock()
	delete(t.svcs, s.Host)
	t.mu.Unlock()
}

func jsonResp(req *http.Request, status int, body []byte) *http.Response {
	return &http.Response{
		StatusCode: status, Status: fmt.Sprintf("%d", status), Proto: "HTTP/1.1", ProtoMajor: 1, ProtoMinor: 1,
		Header: http.Header{"Content-Type": {"application/json"}}, Body: io.NopCloser(bytes.NewReader(body)),
		ContentLength: int64(len(body)), Request: req,
	}
}

// tracked replaces the body of resp by one the log keeps an eye on.
func (s *Service) tracked(resp *http.Response) *http.Response {
	if resp == nil || resp.Body == nil {
		return resp
	}
	b, _ := io.ReadAll(resp.Body)
	resp.Body = s.Log.track(resp.StatusCode, b)
	return resp
}

type wireReq struct {
	Query         string         `json:"query"`
	Variables     map[string]any `json:"variables"`
	OperationName *string        `json:"operationName"`
}

func (w *wireReq) toEngine() *engine.Request {
	r := &engine.Request{Query: w.Query, Variables: w.Variables}
	if w.OperationName != nil {
		r.OperationName = *w.OperationName
	}
	return r
}

func (t *Transport) RoundTrip(req *http.Request) (*http.Response, error) {
	t.mu.RLock()
	s := t.svcs[req.URL.Host]
	t.mu.RUnlock()
	if s == nil {
		return nil, fmt.Errorf("fake transport: unknown host %q", req.URL.Host)
	}
	if err := req.Context().Err(); err != nil {
		return nil, err
	}
	var body []byte
	if req.Body != nil {
		body, _ = io.ReadAll(req.Body)
		req.Body.Close()
	}
	if want := s.path(); req.URL.Path != want && !(s.Redirect && req.URL.Path == want+"/") {
		// the service is mounted at one path only
		return s.tracked(jsonResp(req, 404, []byte("404 page not found\n"))), nil
	}
	if s.Redirect && !strings.HasSuffix(req.URL.Path, "/") {
		// not a call the service sees: the router in front of it sends the client to the mounted path
		u := *req.URL
		u.Path += "/"
		return &http.Response{StatusCode: 307, Status: "307 Temporary Redirect", Proto: "HTTP/1.1", ProtoMajor: 1, ProtoMinor: 1,
			Header: http.Header{"Location": {u.String()}}, Body: http.NoBody, Request: req}, nil
	}
	if s.TCPAddr != "" {
		out := req.Clone(req.Context())
		u := *req.URL
		u.Host = s.TCPAddr
		out.URL, out.Host = &u, ""
		out.Body = io.NopCloser(bytes.NewReader(body))
		out.ContentLength = int64(len(body))
		if req.GetBody != nil {
			out.GetBody = func() (io.ReadCloser, error) { return io.NopCloser(bytes.NewReader(body)), nil }
		} else {
			out.GetBody = nil
		}
		resp, err := realTransport.RoundTrip(out)
		if err != nil {
			return nil, err
		}
		raw := resp.Body
		resp = s.tracked(resp)
		raw.Close()
		return resp, nil
	}
	resp, err := s.ServeBytes(req, req.Header.Get("Content-Type"), body)
	if err == nil && resp != nil && resp.Body != nil && strings.Contains(req.Header.Get("Accept-Encoding"), "gzip") {
		// the caller asked for gzip by itself (net/http's own negotiation happens below this layer): it gets gzip
		b, _ := io.ReadAll(resp.Body)
		var zb bytes.Buffer
		zw := gzip.NewWriter(&zb)
		zw.Write(b)
		zw.Close()
		resp.Body = io.NopCloser(bytes.NewReader(zb.Bytes()))
		resp.ContentLength = int64(zb.Len())
		resp.Header.Set("Content-Encoding", "gzip")
	}
	return s.tracked(resp), err
}

// ServeBytes answers one HTTP call.
func (s *Service) ServeBytes(req *http.Request, contentType string, body []byte) (*http.Response, error) {
	callID := s.Log.nextCall()
	s.mu.Lock()
	s.svcCalls++
	svcCall := s.svcCalls
	s.mu.Unlock()

	mt, params, _ := mime.ParseMediaType(contentType)
	call := &Call{Service: s, CallID: callID, SvcCall: svcCall}
	var wires []*wireReq
	var files []FileInfo
	isArray := false
	if mt == "multipart/form-data" {
		call.Multipart = true
		w, fs, err := parseMultipart(body, params["boundary"])
		if err != nil {
			return jsonResp(req, 400, []byte(`{"errors":[{"message":"bad multipart"}]}`)), nil
		}
		wires, files = []*wireReq{w}, fs
	} else {
		trim := bytes.TrimSpace(body)
		if len(trim) > 0 && trim[0] == '[' {
			isArray = true
			if err := json.Unmarshal(trim, &wires); err != nil {
				return jsonResp(req, 400, []byte(`{"errors":[{"message":"bad json"}]}`)), nil
			}
		} else {
			var w wireReq
			if err := json.Unmarshal(trim, &w); err != nil {
				return jsonResp(req, 400, []byte(`{"errors":[{"message":"bad json"}]}`)), nil
			}
			wires = []*wireReq{&w}
		}
	}
	for _, w := range wires {
		call.Requests = append(call.Requests, w.toEngine())
	}
	if s.Before != nil {
		s.Before(call)
	}
	var fault *Fault
	if s.FaultFn != nil {
		fault = s.FaultFn(call)
	}
	if fault != nil && fault.Gate != nil {
		<-fault.Gate
	}
	resps := make([]map[string]any, len(wires))
	evs := make([]*Event, len(wires))
	for i, r := range call.Requests {
		resps[i], evs[i] = s.evalWith(r, callID, i, len(wires), call.Multipart, files, params["boundary"])
	}
	if s.After != nil {
		defer s.After(call)
	}
	if fault != nil && fault.Kind != "" {
		for _, e := range evs {
			e.Fault = fault.Kind
		}
		okStatus := 200
		if s.OKStatus != 0 {
			okStatus = s.OKStatus
		}
		resp, err := applyFault(req, fault, resps, isArray, okStatus)
		if resp != nil && resp.Body != nil {
			b, _ := io.ReadAll(resp.Body)
			s.Log.addSent(b)
			resp.Body = io.NopCloser(bytes.NewReader(b))
		}
		return resp, err
	}
	if s.EmptyErrors {
		for _, r := range resps {
			if _, ok := r["errors"]; !ok {
				r["errors"] = []any{}
			}
		}
	}
	var out []byte
	if isArray {
		out, _ = json.Marshal(resps)
	} else {
		out, _ = json.Marshal(resps[0])
	}
	s.Log.addSent(out)
	status := 200
	if s.OKStatus != 0 {
		status = s.OKStatus
	}
	return jsonResp(req, status, out), nil
}

// FaultKinds lists the single-fault kinds understood by applyFault.  The first
// group are "failure signals" in the sense of C09.
var FaultKinds = []string{
	"transport-error", "transport-eof", "transport-unexpected-eof", "transport-reset", "status-500", "status-502-valid-body", "status-404-valid-body", "non-json", "valid-body-then-garbage", "not-array", "short-array", "long-array",
	"errors", "errors-null-entries", "errors+data", "missing-data", "missing-node", "node-wrong-type",
	// shape contradictions (not failure signals):
	"data-null", "node-null", "shape-scalar-for-object", "shape-object-for-list", "shape-list-nonmap", "shape-id-missing", "shape-id-nonstring", "shape-null-nonnull", "shape-list-for-object", "shape-emptylist-for-object",
}

// IsFailureSignal reports whether kind is in the C09 list "up to and including a mistyped node".
func IsFailureSignal(kind string) bool {
	switch kind {
	case "transport-error", "transport-eof", "transport-unexpected-eof", "transport-reset", "status-500", "status-502-valid-body", "status-404-valid-body", "non-json", "valid-body-then-garbage", "not-array", "short-array", "long-array",
		"errors", "errors-null-entries", "errors+data", "missing-data", "missing-node", "node-wrong-type":
		return true
	}
	return false
}

const Sentinel = "☠SENTINEL"

func applyFault(req *http.Request, f *Fault, resps []map[string]any, isArray bool, okStatus int) (*http.Response, error) {
	sel := func(i int) bool { return f.Pos < 0 || f.Pos == i || (f.Pos >= len(resps) && i == len(resps)-1) }
	switch f.Kind {
	case "transport-error":
		return nil, errors.New("fake transport: injected connection failure")
	// the errors a real connection yields when the service read the request (it is in the log) and
	// then went away without answering
	case "transport-eof":
		return nil, io.EOF
	case "transport-unexpected-eof":
		return nil, io.ErrUnexpectedEOF
	case "transport-reset":
		return nil, &net.OpError{Op: "read", Net: "tcp", Err: os.NewSyscallError("read", syscall.ECONNRESET)}
	case "status-500":
		return jsonResp(req, 500, []byte(`{"errors":[{"message":"boom"}]}`)), nil
	case "status-502-valid-body", "status-404-valid-body":
		code := 502
		if f.Kind == "status-404-valid-body" {
			code = 404
		}
		var out []byte
		if isArray {
			out, _ = json.Marshal(resps)
		} else if len(resps) > 0 {
			out, _ = json.Marshal(resps[0])
		}
		return jsonResp(req, code, out), nil
	case "non-json":
		return jsonResp(req, 200, []byte(`<html>not json</html>`)), nil
	case "valid-body-then-garbage":
		// the well-formed answer followed by something else (a stack trace, an HTML page, a second document): not JSON
		var out []byte
		if isArray {
			out, _ = json.Marshal(resps)
		} else if len(resps) > 0 {
			out, _ = json.Marshal(resps[0])
		}
		return jsonResp(req, 200, append(out, []byte("\n<html><body>500 Internal Server Error</body></html>")...)), nil
	case "not-array":
		return jsonResp(req, 200, []byte(`{"data":{"x":"`+Sentinel+`"}}`)), nil
	case "short-array":
		if len(resps) > 0 {
			resps = resps[:len(resps)-1]
		}
	case "long-array":
		resps = append(resps, map[string]any{"data": map[string]any{"extra": Sentinel}})
	default:
		for i := range resps {
			if !sel(i) {
				continue
			}
			resps[i] = corruptElem(f, resps[i])
		}
	}
	var out []byte
	if isArray {
		out, _ = json.Marshal(resps)
	} else if len(resps) > 0 {
		out, _ = json.Marshal(resps[0])
	} else {
		out = []byte("null")
	}
	// a well-formed GraphQL answer (with or without errors) under the service's usual 2xx status
	return jsonResp(req, okStatus, out), nil
}

func corruptElem(f *Fault, r map[string]any) map[string]any {
	out := map[string]any{}
	for k, v := range r {
		out[k] = v
	}
	data, _ := out["data"].(map[string]any)
	errList := func() []any {
		if len(f.Errs) > 0 {
			l := make([]any, len(f.Errs))
			for i, e := range f.Errs {
				l[i] = e
			}
			return l
		}
		return []any{map[string]any{"message": "injected failure", "extensions": map[string]any{"code": "INJECTED"}}}
	}
	switch f.Kind {
	case "errors":
		out["errors"] = errList()
		out["data"] = nil
	case "errors-null-entries":
		// a non-empty errors list whose entries are null
		out["errors"] = []any{nil}
		out["data"] = nil
	case "errors+data":
		out["errors"] = errList()
	case "missing-data":
		delete(out, "data")
	case "data-null":
		out["data"] = nil
	case "missing-node":
		if data != nil {
			d := copyMap(data)
			delete(d, "node")
			out["data"] = d
		}
	case "node-null":
		if data != nil {
			if _, ok := data["node"]; ok {
				d := copyMap(data)
				d["node"] = nil
				out["data"] = d
			}
		}
	case "node-wrong-type":
		if data != nil {
			if _, ok := data["node"]; ok {
				d := copyMap(data)
				d["node"] = Sentinel
				out["data"] = d
			}
		}
	default:
		if data != nil {
			out["data"] = shapeCorrupt(f.Kind, data)
		}
	}
	return out
}

func copyMap(m map[string]any) map[string]any {
	o := make(map[string]any, len(m))
	for k, v := range m {
		o[k] = v
	}
	return o
}

// shapeCorrupt applies a shape contradiction to the first suitable place (depth-first, sorted keys).
func shapeCorrupt(kind string, data map[string]any) map[string]any {
	done := false
	var walk func(v any) any
	walk = func(v any) any {
		if done {
			return v
		}
		switch x := v.(type) {
		case map[string]any:
			switch kind {
			case "shape-scalar-for-object":
				done = true
				return Sentinel
			case "shape-list-for-object":
				done = true
				return []any{x, Sentinel}
			case "shape-emptylist-for-object":
				done = true
				return []any{}
			case "shape-id-missing":
				if _, ok := x["id"]; ok {
					done = true
					c := copyMap(x)
					delete(c, "id")
					return c
				}
			case "shape-id-nonstring":
				if _, ok := x["id"]; ok {
					done = true
					c := copyMap(x)
					c["id"] = map[string]any{"weird": Sentinel}
					return c
				}
			case "shape-null-nonnull":
				if _, ok := x["id"]; ok {
					done = true
					c := copyMap(x)
					c["id"] = nil
					return c
				}
			}
			c := copyMap(x)
			keys := make([]string, 0, len(c))
			for k := range c {
				keys = append(keys, k)
			}
			sortStrings(keys)
			for _, k := range keys {
				c[k] = walk(c[k])
			}
			return c
		case []any:
			switch kind {
			case "shape-object-for-list":
				done = true
				return map[string]any{"notalist": Sentinel}
			case "shape-list-nonmap":
				if len(x) > 0 {
					if _, ok := x[0].(map[string]any); ok {
						done = true
						c := append([]any{}, x...)
						c[0] = Sentinel
						return c
					}
				}
			}
			c := make([]any, len(x))
			for i := range x {
				c[i] = walk(x[i])
			}
			return c
		}
		return v
	}
	out := map[string]any{}
	keys := make([]string, 0, len(data))
	for k := range data {
		keys = append(keys, k)
	}
	sortStrings(keys)
	for _, k := range keys {
		// do not replace the top-level values wholesale for node: go inside
		out[k] = walk(data[k])
	}
	return out
}

func sortStrings(a []string) {
	for i := 1; i < len(a); i++ {
		for j := i; j > 0 && a[j] < a[j-1]; j-- {
			a[j], a[j-1] = a[j-1], a[j]
		}
	}
}

func parseMultipart(body []byte, boundary string) (*wireReq, []FileInfo, error) {
	if boundary == "" {
		return nil, nil, errors.New("no boundary")
	}
	mr := multipart.NewReader(bytes.NewReader(body), boundary)
	var ops, mp []byte
	type part struct {
		key, name string
		data      []byte
	}
	var parts []part
	for {
		p, err := mr.NextPart()
		if err == io.EOF {
			break
		}
		if err != nil {
			return nil, nil, err
		}
		b, _ := io.ReadAll(p)
		switch {
		case p.FormName() == "operations" && p.FileName() == "":
			ops = b
		case p.FormName() == "map" && p.FileName() == "":
			mp = b
		default:
			parts = append(parts, part{p.FormName(), p.FileName(), b})
		}
	}
	var w wireReq
	if err := json.Unmarshal(ops, &w); err != nil {
		return nil, nil, err
	}
	m := map[string][]string{}
	if err := json.Unmarshal(mp, &m); err != nil {
		return nil, nil, err
	}
	var files []FileInfo
	for _, p := range parts {
		files = append(files, FileInfo{Key: p.key, Name: p.name, Bytes: p.data, Paths: m[p.key]})
	}
	// map entries without a part
	for k, paths := range m {
		found := false
		for _, p := range parts {
			if p.key == k {
				found = true
			}
		}
		if !found {
			files = append(files, FileInfo{Key: k, Name: "\x00missing", Paths: paths})
		}
	}
	return &w, files, nil
}
