package fake

import (
	"encoding/json"
	"fmt"
	"net"
	"net/http"
	"strings"
	"sync"
	"sync/atomic"
	"time"

	"verif/harness/internal/engine"

	"github.com/gobwas/ws"
	"github.com/gobwas/ws/wsutil"
)

// SubEvent is one scripted upstream action.
type SubEvent struct {
	Kind    string `json:"kind"` // data | errors-payload | errors+data | error-frame | error-frame-object | complete | close | sleep | garbage
	SleepUs int    `json:"sleep_us,omitempty"`
}

// UpstreamConn records what one upstream websocket connection did.
type UpstreamConn struct {
	Service   string
	Marker    string
	Query     string
	Variables map[string]any
	Valid     bool
	ValidErr  string
	Emitted   int32 // data events written
	Done      int32 // script finished
	Closed    int32 // connection observed closed (read error / close frame)
	StopSeen  int32
	OpenedAt  time.Time
}

// WSUpstream is a graphql-ws upstream bound to a fake service.
type WSUpstream struct {
	Svc   *Service
	Addr  string
	ln    net.Listener
	srv   *http.Server
	mu    sync.Mutex
	Conns []*UpstreamConn
	// Script returns the events to play for a start message (by marker).
	Script func(marker string, req *engine.Request) []SubEvent
	// Refuse makes the upstream refuse the websocket upgrade.
	Refuse bool
}

// StartWS starts a loopback websocket upstream for svc and re-homes the service at that address.
func StartWS(svc *Service) (*WSUpstream, error) {
	ln, err := net.Listen("tcp", "127.0.0.1:0")
	if err != nil {
		return nil, err
	}
	u := &WSUpstream{Svc: svc, Addr: ln.Addr().String(), ln: ln}
	u.srv = &http.Server{Handler: http.HandlerFunc(u.handle)}
	go u.srv.Serve(ln)
	return u, nil
}

func (u *WSUpstream) Close() {
	u.srv.Close()
}

// Snapshot returns copies of the connection records (counters stay live through the returned pointers' atomics).
func (u *WSUpstream) Snapshot() []*UpstreamConn {
	u.mu.Lock()
	defer u.mu.Unlock()
	out := make([]*UpstreamConn, 0, len(u.Conns))
	for _, c := range u.Conns {
		cp := &UpstreamConn{Service: c.Service, Marker: c.Marker, Query: c.Query, Variables: c.Variables, Valid: c.Valid, ValidErr: c.ValidErr, OpenedAt: c.OpenedAt,
			Emitted: atomic.LoadInt32(&c.Emitted), Done: atomic.LoadInt32(&c.Done), Closed: atomic.LoadInt32(&c.Closed), StopSeen: atomic.LoadInt32(&c.StopSeen)}
		out = append(out, cp)
	}
	return out
}

func (u *WSUpstream) set(f func()) {
	u.mu.Lock()
	f()
	u.mu.Unlock()
}

type wsMsg struct {
	ID      string          `json:"id,omitempty"`
	Type    string          `json:"type"`
	Payload json.RawMessage `json:"payload,omitempty"`
}

func markerOf(req *engine.Request) string {
	// marker argument as literal or variable
	if i := strings.Index(req.Query, `marker: "`); i >= 0 {
		rest := req.Query[i+9:]
		if j := strings.Index(rest, `"`); j >= 0 {
			return rest[:j]
		}
	}
	for _, v := range req.Variables {
		if s, ok := v.(string); ok && strings.HasPrefix(s, "mk-") {
			return s
		}
	}
	return ""
}

func (u *WSUpstream) handle(w http.ResponseWriter, r *http.Request) {
	if u.Refuse {
		http.Error(w, "no websocket here", http.StatusBadRequest)
		return
	}
	conn, _, _, err := ws.HTTPUpgrader{Protocol: func(p string) bool { return p == "graphql-ws" }}.Upgrade(r, w)
	if err != nil {
		return
	}
	defer conn.Close()
	rec := &UpstreamConn{Service: u.Svc.Name, OpenedAt: time.Now()}
	u.mu.Lock()
	u.Conns = append(u.Conns, rec)
	u.mu.Unlock()
	var wmu sync.Mutex
	send := func(m any) error {
		b, _ := json.Marshal(m)
		wmu.Lock()
		defer wmu.Unlock()
		return wsutil.WriteServerText(conn, b)
	}
	stop := make(chan struct{})
	var stopOnce sync.Once
	go func() {
		// reader: watches for stop / close
		for {
			msg, err := wsutil.ReadClientText(conn)
			if err != nil {
				atomic.StoreInt32(&rec.Closed, 1)
				stopOnce.Do(func() { close(stop) })
				return
			}
			var m wsMsg
			if json.Unmarshal(msg, &m) != nil {
				continue
			}
			switch m.Type {
			case "connection_init":
				send(wsMsg{Type: "connection_ack"})
			case "start":
				var pl struct {
					Query         string         `json:"query"`
					Variables     map[string]any `json:"variables"`
					OperationName *string        `json:"operationName"`
				}
				json.Unmarshal(m.Payload, &pl)
				req := &engine.Request{Query: pl.Query, Variables: pl.Variables}
				if pl.OperationName != nil {
					req.OperationName = *pl.OperationName
				}
				u.set(func() {
					rec.Query, rec.Variables = pl.Query, pl.Variables
					rec.Marker = markerOf(req)
				})
				go u.play(rec, m.ID, req, send, stop, conn)
			case "stop":
				atomic.StoreInt32(&rec.StopSeen, 1)
				stopOnce.Do(func() { close(stop) })
			case "connection_terminate":
				stopOnce.Do(func() { close(stop) })
			}
		}
	}()
	<-stop
	// keep the connection until the peer closes it (or a grace period passes)
	deadline := time.After(3 * time.Second)
	for atomic.LoadInt32(&rec.Closed) == 0 {
		select {
		case <-deadline:
			return
		case <-time.After(2 * time.Millisecond):
		}
	}
}

func (u *WSUpstream) play(rec *UpstreamConn, id string, req *engine.Request, send func(any) error, stop chan struct{}, conn net.Conn) {
	defer atomic.StoreInt32(&rec.Done, 1)
	doc, op, err := engine.Prepare(u.Svc.Schema, *req)
	if err != nil {
		u.set(func() { rec.ValidErr = err.Error() })
		u.Svc.Log.add(&Event{Service: u.Svc.Name, Query: req.Query, Variables: req.Variables, Valid: false, ValidErr: err.Error(), OpKw: "subscription"})
		send(map[string]any{"id": id, "type": "error", "payload": []any{map[string]any{"message": "upstream validation: " + err.Error()}}})
		return
	}
	u.set(func() { rec.Valid = true })
	u.Svc.Log.add(&Event{Service: u.Svc.Name, Query: req.Query, Variables: req.Variables, Valid: true, OpKw: "subscription"})
	var script []SubEvent
	if u.Script != nil {
		script = u.Script(rec.Marker, req)
	}
	k := 0
	for _, ev := range script {
		select {
		case <-stop:
			return
		default:
		}
		switch ev.Kind {
		case "sleep":
			select {
			case <-stop:
				return
			case <-time.After(time.Duration(ev.SleepUs) * time.Microsecond):
			}
		case "data":
			k++
			res := engine.ExecuteOp(u.Svc.Schema, doc, op, req.Variables, u.Svc.Data, fmt.Sprintf("Subscription@%s#%d", rec.Marker, k))
			pl := map[string]any{"data": res.Data}
			if err := send(map[string]any{"id": id, "type": "data", "payload": pl}); err != nil {
				return
			}
			atomic.AddInt32(&rec.Emitted, 1)
		case "errors+data":
			// a partial answer: data next to errors
			k++
			res := engine.ExecuteOp(u.Svc.Schema, doc, op, req.Variables, u.Svc.Data, fmt.Sprintf("Subscription@%s#%d", rec.Marker, k))
			if err := send(map[string]any{"id": id, "type": "data", "payload": map[string]any{"data": res.Data, "errors": []any{map[string]any{"message": fmt.Sprintf("upstream partial error %s#%d", rec.Marker, k), "extensions": map[string]any{"k": k}}}}}); err != nil {
				return
			}
			atomic.AddInt32(&rec.Emitted, 1)
		case "errors-payload":
			k++
			if err := send(map[string]any{"id": id, "type": "data", "payload": map[string]any{"data": nil, "errors": []any{map[string]any{"message": fmt.Sprintf("upstream error %s#%d", rec.Marker, k)}}}}); err != nil {
				return
			}
			atomic.AddInt32(&rec.Emitted, 1)
		case "error-frame":
			send(map[string]any{"id": id, "type": "error", "payload": []any{map[string]any{"message": "upstream error frame " + rec.Marker}}})
			return
		case "error-frame-object":
			// the payload of an error message as one error object (the other form the protocol knows)
			send(map[string]any{"id": id, "type": "error", "payload": map[string]any{"message": "upstream error frame " + rec.Marker, "extensions": map[string]any{"code": "UPSTREAM"}}})
			return
		case "complete":
			send(map[string]any{"id": id, "type": "complete"})
			return
		case "close":
			conn.Close()
			return
		case "garbage":
			wsutil.WriteServerText(conn, []byte("{not json"))
		}
	}
	// script exhausted without complete: stay open until stopped
	<-stop
}
