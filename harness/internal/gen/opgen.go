package gen

import (
	"encoding/json"
	"fmt"
	"math/rand"
	"sort"
	"strconv"
	"strings"

	"github.com/vektah/gqlparser/v2/ast"
)

// Op is a generated operation.
type Op struct {
	Query         string         `json:"query"`
	Variables     map[string]any `json:"variables,omitempty"`
	OperationName string         `json:"operationName,omitempty"`
	Tags          []string       `json:"tags,omitempty"`
}

// OpProfile tunes the operation generator.
type OpProfile struct {
	Depth          int
	Width          int
	PAlias         float64
	PVar           float64 // argument given as variable
	PFragment      float64 // wrap part of a selection in a named fragment
	PInline        float64
	PDirective     float64 // @skip/@include
	PDirVar        float64 // directive argument is a variable
	PNodeRoot      float64
	PTypename      float64
	PExplicitID    float64
	POpName        float64
	PMultiOp       float64
	PVarDefault    float64 // variable declared with default
	PVarOmit       float64 // value omitted although declared
	PVarNull       float64
	MaxRoots       int
	Kind           ast.Operation
	PArgsAlways    bool    // never omit optional arguments
	ForceName      string  // operation name to use (always sent as operationName)
	HostileStrings bool    // string literals / variable values with quotes, backslashes, unicode, control characters
	Pool           int     // id pool size for node roots
	PFragReuse     float64 // where a finished named fragment fits, spread it again instead of generating fields
	PDupKey        float64 // an object-valued field is selected twice under one response key with different sub-selections
	HostileAliases bool    // aliases `id` / `node` on other fields
	PVarNamedID    float64 // a String/ID variable is named `id` (the name the gateway uses itself) and holds an object id
	PNodeSecond    float64 // a root node selection carries a fragment on a second entity type (default 0.2)
	ForceNodeRoot  bool    // the operation starts with a root node selection
	PNodeIDOnly    float64 // forced node roots come in twos and threes; this share of them selects only `id` in the member fragment
	PRootTypename  float64 // __typename at the root of the operation (answered by the gateway itself), next to the data fields
	PMirror        float64 // select one root field twice (aliases m1/m2) with near-identical sub-selections
	IDStyle        int
}

func DefaultOpProfile() OpProfile {
	return OpProfile{Depth: 4, Width: 3, PAlias: 0.08, PVar: 0.3, PFragment: 0.06, PInline: 0.06, PDirective: 0.03, PDirVar: 0.15,
		PNodeRoot: 0.05, PTypename: 0.1, PExplicitID: 0.2, POpName: 0.3, PMultiOp: 0.25, PVarDefault: 0.15, PVarOmit: 0.3, PVarNull: 0.1,
		MaxRoots: 3, Kind: ast.Query, Pool: 5}
}

type varDecl struct {
	name, typ, def string
}

type opGen struct {
	r     *rand.Rand
	s     *ast.Schema
	p     OpProfile
	vars  []varDecl
	vals  map[string]any
	frags []string
	tags  map[string]bool
	nvar  int
	nfrag int
	// mirror mode: the second copy of a mirrored root field replays the same random stream;
	// mr (a separate stream) decides where it deviates (explicit id flipped, a sub-field dropped)
	mirror    bool
	mr        *rand.Rand
	idVarUsed bool
	fragOn    map[string][]string // type condition -> names of finished named fragments (for a second spread)
}

func (g *opGen) tag(t string) { g.tags[t] = true }

func (g *opGen) chance(p float64) bool { return g.r.Float64() < p }

// GenOp generates one operation of p.Kind against schema s.  It returns nil if
// the schema has no such root.
func GenOp(r *rand.Rand, s *ast.Schema, p OpProfile) *Op {
	g := &opGen{r: r, s: s, p: p, vals: map[string]any{}, tags: map[string]bool{}}
	var root *ast.Definition
	kw := "query"
	switch p.Kind {
	case ast.Mutation:
		root, kw = s.Mutation, "mutation"
	case ast.Subscription:
		root, kw = s.Subscription, "subscription"
	default:
		root = s.Query
	}
	if root == nil {
		return nil
	}
	if kw != "query" {
		g.tag(kw)
	}
	body := g.rootSelection(root, kw)
	if body == "" {
		return nil
	}
	name := ""
	if g.chance(p.POpName) {
		name = pick(r, []string{"Op", "Q1", "Main", "getIt"})
		g.tag("op-name")
	}
	if p.ForceName != "" {
		name = p.ForceName
	}
	var b strings.Builder
	head := kw
	if name != "" {
		head += " " + name
	}
	if len(g.vars) > 0 {
		var ds []string
		for _, v := range g.vars {
			d := "$" + v.name + ": " + v.typ
			if v.def != "" {
				d += " = " + v.def
			}
			ds = append(ds, d)
		}
		head += "(" + strings.Join(ds, ", ") + ")"
	}
	if head == "query" && g.chance(0.5) {
		head = ""
	}
	b.WriteString(head + " " + body + "\n")
	for _, f := range g.frags {
		b.WriteString(f + "\n")
	}
	op := &Op{Query: b.String(), OperationName: ""}
	if name != "" && g.chance(p.PMultiOp) {
		// a second, unrelated operation in the same document
		other := "query Other { __typename }"
		if g.chance(0.5) {
			op.Query = other + "\n" + op.Query
		} else {
			op.Query = op.Query + other + "\n"
		}
		op.OperationName = name
		g.tag("multi-op")
	} else if name != "" && (g.chance(0.5) || p.ForceName != "") {
		op.OperationName = name
	}
	if len(g.vals) > 0 {
		op.Variables = g.vals
	}
	for t := range g.tags {
		op.Tags = append(op.Tags, t)
	}
	sort.Strings(op.Tags)
	return op
}

func (g *opGen) rootSelection(root *ast.Definition, kw string) string {
	var fields []*ast.FieldDefinition
	for _, f := range root.Fields {
		if strings.HasPrefix(f.Name, "__") {
			continue
		}
		fields = append(fields, f)
	}
	if len(fields) == 0 {
		return ""
	}
	n := 1 + g.r.Intn(g.p.MaxRoots)
	if kw == "subscription" {
		n = 1
	}
	var parts []string
	usedKeys := map[string]bool{}
	if kw == "query" && g.p.ForceNodeRoot && root.Fields.ForName("node") != nil {
		k := 1
		if g.p.PNodeIDOnly > 0 {
			k = 2 + g.r.Intn(2) // several aliased node roots, some selecting nothing but the id
		}
		for j := 0; j < k; j++ {
			if s := g.nodeRoot(usedKeys); s != "" {
				parts = append(parts, s)
				n--
			}
		}
	}
	if kw == "query" && g.p.PMirror > 0 && g.chance(g.p.PMirror) {
		if s := g.mirrorRoot(root, fields); s != "" {
			usedKeys["m1"], usedKeys["m2"] = true, true
			parts = append(parts, s)
			n--
		}
	}
	for i := 0; i < n; i++ {
		f := pick(g.r, fields)
		if f.Name == "node" {
			if !g.chance(g.p.PNodeRoot * 3) {
				continue
			}
			if s := g.nodeRoot(usedKeys); s != "" {
				parts = append(parts, s)
			}
			continue
		}
		if s := g.field(root, f, g.p.Depth, usedKeys); s != "" {
			parts = append(parts, s)
		}
	}
	if len(parts) == 0 {
		for _, f := range fields {
			if f.Name == "node" {
				continue
			}
			if s := g.field(root, f, g.p.Depth, usedKeys); s != "" {
				parts = append(parts, s)
				break
			}
		}
	}
	if len(parts) == 0 {
		return ""
	}
	if len(parts) > 1 {
		g.tag("multi-root")
	}
	if kw != "subscription" && g.p.PRootTypename > 0 && g.chance(g.p.PRootTypename) {
		// ... or introspection fields whose answer is the same for the monolith and the merged schema
		t := pick(g.r, []string{"__typename", "rt: __typename", "... on " + root.Name + " { __typename }", "__typename", "__schema { queryType { name } }", `__type(name: "` + root.Name + `") { kind name }`})
		if kw != "query" && strings.HasPrefix(t, "__schema") || kw != "query" && strings.HasPrefix(t, "__type(") {
			t = "__typename" // __schema and __type are fields of the query root only
		}
		g.tag("root-typename")
		if g.r.Intn(2) == 0 {
			parts = append([]string{t}, parts...)
		} else {
			parts = append(parts, t)
		}
	}
	return "{ " + strings.Join(parts, " ") + " }"
}

// mirrorRoot selects one composite root field twice under aliases m1 and m2.  Both copies are
// generated from the same random stream, so they are identical except where the mirror stream
// flips an explicit id or drops a sub-field: the same entities then appear under two response
// paths with (nearly) the same follow-up requests.
func (g *opGen) mirrorRoot(root *ast.Definition, fields []*ast.FieldDefinition) string {
	var cands []*ast.FieldDefinition
	for _, f := range fields {
		if f.Name != "node" && isComposite(g.s.Types[f.Type.Name()]) {
			cands = append(cands, f)
		}
	}
	if len(cands) == 0 {
		return ""
	}
	f := pick(g.r, cands)
	td := g.s.Types[f.Type.Name()]
	args := g.arguments(f.Arguments)
	seed := g.r.Int63()
	main := g.r
	shared := td.Kind == ast.Object && main.Intn(3) == 0
	savedInline := g.p.PInline
	defer func() { g.r = main; g.mirror = false; g.p.PInline = savedInline }()
	if shared {
		g.p.PInline = 0.3 // the shared fragment also holds inline fragments (type conditions inside a named fragment)
	}
	g.r = rand.New(rand.NewSource(seed))
	s1 := g.selectionSet(td, g.p.Depth-1)
	g.r = rand.New(rand.NewSource(seed))
	g.mirror, g.mr = true, rand.New(rand.NewSource(seed^0x5bd1e995))
	s2 := g.selectionSet(td, g.p.Depth-1)
	g.tag("mirror")
	if s1 != s2 {
		g.tag("mirror-deviates")
	}
	if shared {
		// both copies spread one named fragment (the second copy's deviations are dropped)
		g.nfrag++
		name := fmt.Sprintf("M%d", g.nfrag)
		g.frags = append(g.frags, "fragment "+name+" on "+td.Name+" "+s1)
		g.tag("mirror-shared-fragment")
		g.tag("frag-reused")
		return "m1: " + f.Name + args + " { ..." + name + " } m2: " + f.Name + args + " { ..." + name + " }"
	}
	return "m1: " + f.Name + args + " " + s1 + " m2: " + f.Name + args + " " + s2
}

func (g *opGen) entityTypes() []*ast.Definition {
	var out []*ast.Definition
	for _, pt := range g.s.PossibleTypes["Node"] {
		out = append(out, pt)
	}
	sort.Slice(out, func(i, j int) bool { return out[i].Name < out[j].Name })
	return out
}

func MakeIDStyle(style int, t string, n int) string {
	switch style {
	case 1:
		return fmt.Sprintf("%s:%d", t, n)
	case 2:
		return fmt.Sprintf("%s#%d", t, n)
	}
	return fmt.Sprintf("%s_%d", t, n)
}

func (g *opGen) nodeRoot(usedKeys map[string]bool) string {
	ents := g.entityTypes()
	if len(ents) == 0 {
		return ""
	}
	g.tag("node-root")
	t := pick(g.r, ents)
	pool := g.p.Pool
	if pool <= 0 {
		pool = 5
	}
	id := MakeIDStyle(g.p.IDStyle, t.Name, g.r.Intn(pool))
	key := "node"
	alias := ""
	if usedKeys["node"] || g.chance(g.p.PAlias) {
		key = fmt.Sprintf("n%d", len(usedKeys))
		alias = key + ": "
	}
	if usedKeys[key] {
		return ""
	}
	usedKeys[key] = true
	arg := strconv.Quote(id)
	if g.chance(g.p.PVar) {
		v := g.newVar("ID!", "")
		g.vals[v] = id
		arg = "$" + v
		g.tag("var")
	}
	var inner []string
	if g.chance(0.3) {
		inner = append(inner, "id")
	}
	if g.chance(0.3) {
		inner = append(inner, "__typename")
	}
	frag := "... on " + t.Name + " " + g.selectionSet(t, g.p.Depth-1)
	if g.p.PNodeIDOnly > 0 && g.chance(g.p.PNodeIDOnly) {
		frag = "... on " + t.Name + " { id }"
		g.tag("node-root-id-only")
	}
	inner = append(inner, frag)
	p2 := g.p.PNodeSecond
	if p2 == 0 {
		p2 = 0.2
	}
	if g.chance(p2) && len(ents) > 1 {
		t2 := pick(g.r, ents)
		if t2.Name != t.Name {
			inner = append(inner, "... on "+t2.Name+" "+g.selectionSet(t2, g.p.Depth-2))
		}
	}
	return alias + "node(id: " + arg + ") { " + strings.Join(inner, " ") + " }"
}

func (g *opGen) newVar(typ, def string) string {
	g.nvar++
	n := fmt.Sprintf("v%d", g.nvar)
	g.vars = append(g.vars, varDecl{n, typ, def})
	return n
}

func isComposite(d *ast.Definition) bool {
	return d != nil && (d.Kind == ast.Object || d.Kind == ast.Interface || d.Kind == ast.Union)
}

func (g *opGen) directive() string {
	if !g.chance(g.p.PDirective) {
		return ""
	}
	g.tag("skip-include")
	name := pick(g.r, []string{"skip", "include"})
	val := g.r.Intn(2) == 0
	if g.chance(g.p.PDirVar) {
		g.tag("var-in-directive")
		v := g.newVar("Boolean!", "")
		g.vals[v] = val
		return " @" + name + "(if: $" + v + ")"
	}
	return fmt.Sprintf(" @%s(if: %v)", name, val)
}

// field renders one field selection (with arguments, alias, sub-selection).
func (g *opGen) field(parent *ast.Definition, f *ast.FieldDefinition, depth int, usedKeys map[string]bool) string {
	td := g.s.Types[f.Type.Name()]
	comp := isComposite(td)
	if comp && depth <= 0 {
		return ""
	}
	key := f.Name
	alias := ""
	if usedKeys[key] || g.chance(g.p.PAlias) {
		key = pick(g.r, []string{"a", "b", "c", "x", "y", "name", "item", "id2"}) + strconv.Itoa(g.r.Intn(3))
		if g.p.HostileAliases && f.Name != "id" && g.chance(0.3) {
			// response keys the gateway uses itself
			key = pick(g.r, []string{"id", "node", "id", "typename"})
			g.tag("hostile-alias:" + key)
		}
		alias = key + ": "
		g.tag("alias")
	}
	if usedKeys[key] {
		return ""
	}
	usedKeys[key] = true
	args := g.arguments(f.Arguments)
	dir := g.directive()
	out := alias + f.Name + args + dir
	if comp {
		out += " " + g.selectionSet(td, depth-1)
		if g.p.PDupKey > 0 && g.chance(g.p.PDupKey) {
			// the same response key (same field, same arguments) selected again with another sub-selection: fields merge
			out += " " + alias + f.Name + args + dir + " " + g.selectionSet(td, depth-1)
			g.tag("dup-key-direct")
		}
	}
	return out
}

func (g *opGen) arguments(defs ast.ArgumentDefinitionList) string {
	var parts []string
	for _, ad := range defs {
		required := ad.Type.NonNull && ad.DefaultValue == nil
		if !required && !g.p.PArgsAlways && g.chance(0.35) {
			continue
		}
		g.tag("args")
		if g.chance(g.p.PVar) {
			parts = append(parts, ad.Name+": "+g.variableFor(ad.Type))
			continue
		}
		lit, _ := g.value(ad.Type, 2, true)
		parts = append(parts, ad.Name+": "+lit)
	}
	if len(parts) == 0 {
		return ""
	}
	return "(" + strings.Join(parts, ", ") + ")"
}

// variableFor declares a variable usable at a position of type t and returns "$name".
func (g *opGen) variableFor(t *ast.Type) string {
	g.tag("var")
	typ := t.String()
	vt := *t
	if !t.NonNull && g.chance(0.2) {
		typ += "!"
		vt.NonNull = true
		g.tag("var-stricter")
	}
	lit, val := g.value(&vt, 2, false)
	def := ""
	nonNull := strings.HasSuffix(typ, "!")
	if !nonNull && g.chance(g.p.PVarDefault) {
		dl, _ := g.value(t, 2, false)
		def = dl
		g.tag("var-default")
	}
	_ = lit
	if base := g.s.Types[t.Name()]; t.Elem == nil && base != nil && (base.Name == "ID" || base.Name == "String") && !g.idVarUsed && g.chance(g.p.PVarNamedID) {
		// the variable name the gateway uses for its own object lookups, holding an id that resolves
		g.idVarUsed = true
		ets := g.entityTypes()
		tn := "Thing"
		if len(ets) > 0 {
			tn = pick(g.r, ets).Name
		}
		pool := g.p.Pool
		if pool <= 0 {
			pool = 3
		}
		g.vars = append(g.vars, varDecl{"id", typ, ""})
		g.vals["id"] = MakeIDStyle(g.p.IDStyle, tn, g.r.Intn(pool))
		g.tag("var-named-id")
		return "$id"
	}
	v := g.newVar(typ, def)
	switch {
	case !nonNull && g.chance(g.p.PVarOmit):
		g.tag("var-omitted")
		if def != "" {
			g.tag("var-default-used")
		}
	case !nonNull && g.chance(g.p.PVarNull):
		g.vals[v] = nil
		g.tag("var-null")
	default:
		g.vals[v] = val
	}
	return "$" + v
}

var stringPool = []string{"a", "bb", "zed", "x y", "q"}

// value renders a literal of type t and the equivalent JSON value.  When
// allowVar is set, nested positions may be variables.
func (g *opGen) value(t *ast.Type, depth int, allowVar bool) (string, any) {
	if !t.NonNull && g.chance(0.08) {
		return "null", nil
	}
	if t.Elem != nil {
		n := g.r.Intn(3)
		var ls []string
		vs := []any{}
		for i := 0; i < n; i++ {
			l, v := g.value(t.Elem, depth-1, allowVar)
			ls = append(ls, l)
			vs = append(vs, v)
		}
		return "[" + strings.Join(ls, ", ") + "]", vs
	}
	def := g.s.Types[t.NamedType]
	if def == nil {
		return "null", nil
	}
	switch def.Kind {
	case ast.Enum:
		e := pick(g.r, def.EnumValues).Name
		return e, e
	case ast.InputObject:
		var ls []string
		m := map[string]any{}
		for _, f := range def.Fields {
			req := f.Type.NonNull && f.DefaultValue == nil
			if !req && (depth <= 0 || g.chance(0.5)) {
				continue
			}
			if allowVar && g.chance(g.p.PVar/2) {
				g.tag("var-in-input")
				ls = append(ls, f.Name+": "+g.variableFor(f.Type))
				continue
			}
			l, v := g.value(f.Type, depth-1, allowVar)
			ls = append(ls, f.Name+": "+l)
			m[f.Name] = v
		}
		return "{" + strings.Join(ls, ", ") + "}", m
	case ast.Scalar:
		switch def.Name {
		case "Int":
			n := g.r.Intn(20)
			return strconv.Itoa(n), float64(n)
		case "Float":
			f := float64(g.r.Intn(40)) / 4
			return strconv.FormatFloat(f, 'f', -1, 64), f
		case "Boolean":
			b := g.r.Intn(2) == 0
			return strconv.FormatBool(b), b
		case "ID":
			s := "id" + strconv.Itoa(g.r.Intn(5))
			return strconv.Quote(s), s
		default:
			if def.Name != "String" && !def.BuiltIn && g.chance(0.6) {
				// custom scalar: any literal, also lists / objects, also with variables inside
				g.tag("custom-scalar-literal")
				switch g.r.Intn(5) {
				case 0:
					n := g.r.Intn(9)
					return strconv.Itoa(n), float64(n)
				case 1:
					return `[1, "a", true]`, []any{float64(1), "a", true}
				case 2:
					return `{k: 1, l: ["x", null]}`, map[string]any{"k": float64(1), "l": []any{"x", nil}}
				case 3:
					if allowVar {
						g.tag("var-in-custom-scalar-literal")
						return "[" + g.variableFor(&ast.Type{NamedType: "Int"}) + "]", nil
					}
				case 4:
					if allowVar {
						g.tag("var-in-custom-scalar-literal")
						return "{k: " + g.variableFor(&ast.Type{NamedType: "String"}) + "}", nil
					}
				}
			}
			s := pick(g.r, stringPool)
			if g.p.HostileStrings && g.r.Intn(2) == 0 {
				// ... and texts a block string would not give back unchanged (outer blank lines, common indentation)
				s = pick(g.r, []string{`q"uote`, `back\slash`, "unié世", "tab\there", "nl\nx", "\u0001ctl", "#hash", "a:b", "", "buy milk\nbuy eggs\n", "  retries: 3\n  timeout: 10", "\n\nlate start\n", "tri\"\"\"ple\nquote"})
				g.tag("hostile-string-argument")
				// GraphQL string literal: JSON escaping is a valid GraphQL escape set
				b, _ := json.Marshal(s)
				return string(b), s
			}
			return strconv.Quote(s), s
		}
	}
	return "null", nil
}

func (g *opGen) possible(def *ast.Definition) []*ast.Definition {
	pts := append([]*ast.Definition{}, g.s.PossibleTypes[def.Name]...)
	sort.Slice(pts, func(i, j int) bool { return pts[i].Name < pts[j].Name })
	return pts
}

// selectionSet renders "{ ... }" for composite type def.
func (g *opGen) selectionSet(def *ast.Definition, depth int) string {
	used := map[string]bool{}
	var parts []string
	if g.chance(g.p.PTypename) {
		parts = append(parts, "__typename")
		used["__typename"] = true
		g.tag("typename")
	}
	switch def.Kind {
	case ast.Union:
		g.tag("abstract")
		for _, pt := range g.possible(def) {
			if g.chance(0.7) {
				parts = append(parts, "... on "+pt.Name+" "+g.selectionSet(pt, depth-1))
			}
		}
	case ast.Interface:
		g.tag("abstract")
		parts = append(parts, g.fields(def, depth, used)...)
		for _, pt := range g.possible(def) {
			if g.chance(0.5) {
				g.tag("iface-member-fragment")
				parts = append(parts, "... on "+pt.Name+" "+g.selectionSet(pt, depth-1))
			}
		}
	default:
		parts = append(parts, g.fields(def, depth, used)...)
	}
	if (def.Kind == ast.Union || def.Kind == ast.Interface) && g.chance(g.p.PInline) {
		// an inline fragment without type condition directly on the abstract type
		g.tag("untyped-inline-on-abstract")
		parts = append(parts, "... "+strings.TrimSpace(pick(g.r, []string{"", "@include(if: true)", "@skip(if: false)"}))+" { __typename }")
	}
	if len(parts) == 0 {
		if def.Fields.ForName("id") != nil && g.r.Intn(2) == 0 {
			parts = append(parts, "id")
		} else {
			parts = append(parts, "__typename")
		}
	}
	return "{ " + strings.Join(parts, " ") + " }"
}

func (g *opGen) fields(def *ast.Definition, depth int, used map[string]bool) []string {
	var parts []string
	if names := g.fragOn[def.Name]; len(names) > 0 && g.p.PFragReuse > 0 && g.chance(g.p.PFragReuse) {
		// a second spread of a fragment defined earlier in the document
		g.tag("frag-reused")
		return []string{"..." + pick(g.r, names)}
	}
	var cands []*ast.FieldDefinition
	for _, f := range def.Fields {
		if strings.HasPrefix(f.Name, "__") {
			continue
		}
		if f.Name == "id" {
			sel := g.chance(g.p.PExplicitID)
			if g.mirror && g.mr.Intn(2) == 0 {
				sel = !sel
			}
			if sel && g.p.HostileAliases && g.chance(0.4) {
				// the id under another response key only
				parts = append(parts, "uid: id")
				used["uid"] = true
				g.tag("aliased-id")
			} else if sel {
				parts = append(parts, "id")
				used["id"] = true
				g.tag("explicit-id")
			}
			continue
		}
		cands = append(cands, f)
		if g.p.PMirror > 0 && isComposite(g.s.Types[f.Type.Name()]) {
			cands = append(cands, f, f) // mirrored operations favour object-valued fields (more follow-up requests)
		}
	}
	if len(cands) == 0 {
		return parts
	}
	n := 1 + g.r.Intn(g.p.Width)
	var sel []string
	for i := 0; i < n; i++ {
		f := pick(g.r, cands)
		if s := g.field(def, f, depth, used); s != "" {
			if g.mirror && len(sel) > 0 && g.mr.Intn(3) == 0 {
				continue // the mirror copy leaves this one out
			}
			sel = append(sel, s)
		}
	}
	// optionally wrap a suffix of the selections into a fragment
	if len(sel) > 0 && g.chance(g.p.PFragment) && def.Kind != ast.Union {
		k := g.r.Intn(len(sel))
		g.nfrag++
		name := fmt.Sprintf("F%d", g.nfrag)
		g.frags = append(g.frags, "fragment "+name+" on "+def.Name+" { "+strings.Join(sel[k:], " ")+" }")
		sel = append(sel[:k:k], "..."+name+g.directive())
		g.tag("frag-named")
		if g.fragOn == nil {
			g.fragOn = map[string][]string{}
		}
		g.fragOn[def.Name] = append(g.fragOn[def.Name], name)
	} else if len(sel) > 0 && g.chance(g.p.PInline) {
		k := g.r.Intn(len(sel))
		cond := ""
		if g.r.Intn(2) == 0 {
			cond = "on " + def.Name + " "
		}
		inl := "... " + cond + strings.TrimSpace(g.directive()) + " { " + strings.Join(sel[k:], " ") + " }"
		sel = append(sel[:k:k], inl)
		g.tag("frag-inline")
	}
	return append(parts, sel...)
}

// MarshalVars renders variables as JSON (nil -> null map).
func MarshalVars(v map[string]any) string {
	if v == nil {
		return "null"
	}
	b, _ := json.Marshal(v)
	return string(b)
}
