package gen

import (
	"fmt"
	"math/rand"
	"sort"
	"strings"
)

// SchemaFeatures steers GenSchema; every flag is also reported as a tag.
type SchemaFeatures struct {
	NonDefaultRoots bool
	MaxWrapDepth    int // nesting of list/non-null wrappers
	ArgDefaults     bool
	InputDefaults   bool
	ComplexDefaults bool // object / list / enum / null / escaped-string defaults
	Deprecations    bool
	Directives      bool
	DirectiveArgs   bool
	Repeatable      bool
	IfaceImplIface  bool
	Descriptions    bool
	BlockDesc       bool
	SpecifiedBy     bool
	SharedUnionMem  bool
	Mutation        bool
	Subscription    bool
	Underscore      bool // type and field names starting with a single underscore (`_Service`, `_entities`): ordinary names
}

func (f SchemaFeatures) Tags() []string {
	var t []string
	add := func(b bool, s string) {
		if b {
			t = append(t, s)
		}
	}
	add(f.NonDefaultRoots, "s:nondefault-roots")
	add(f.MaxWrapDepth > 6, "s:wrappers>6")
	add(f.MaxWrapDepth > 3, "s:wrappers>3")
	add(f.ArgDefaults, "s:arg-defaults")
	add(f.InputDefaults, "s:input-defaults")
	add(f.ComplexDefaults, "s:complex-defaults")
	add(f.Deprecations, "s:deprecations")
	add(f.Directives, "s:directives")
	add(f.DirectiveArgs, "s:directive-args")
	add(f.Repeatable, "s:repeatable")
	add(f.IfaceImplIface, "s:iface-implements-iface")
	add(f.Descriptions, "s:descriptions")
	add(f.BlockDesc, "s:block-descriptions")
	add(f.SpecifiedBy, "s:specifiedBy")
	add(f.SharedUnionMem, "s:shared-union-member")
	add(f.Underscore, "s:underscore-names")
	sort.Strings(t)
	return t
}

// RandomFeatures draws a feature set; level 0 = plain, higher = more hostile.
func RandomFeatures(r *rand.Rand) SchemaFeatures {
	p := func(x float64) bool { return r.Float64() < x }
	f := SchemaFeatures{
		NonDefaultRoots: p(0.15), MaxWrapDepth: 1 + r.Intn(3), ArgDefaults: p(0.3), InputDefaults: p(0.3), ComplexDefaults: p(0.2),
		Deprecations: p(0.25), Directives: p(0.3), DirectiveArgs: p(0.5), Repeatable: p(0.15), IfaceImplIface: p(0.2),
		Descriptions: p(0.3), BlockDesc: p(0.3), SpecifiedBy: p(0.15), SharedUnionMem: p(0.2), Mutation: p(0.5), Subscription: p(0.3),
	}
	if p(0.12) {
		f.MaxWrapDepth = 4 + r.Intn(6)
	}
	f.Underscore = p(0.3)
	if !f.Directives {
		f.DirectiveArgs, f.Repeatable = false, false
	}
	if !f.Descriptions {
		f.BlockDesc = false
	}
	return f
}

type sgen struct {
	r *rand.Rand
	f SchemaFeatures
	b strings.Builder
}

func (g *sgen) desc(indent, what string) {
	if !g.f.Descriptions || g.r.Intn(2) == 0 {
		return
	}
	if g.r.Intn(3) == 0 {
		// backslashes mean nothing in a block string and one character in a quoted one
		what += ` matching ^\d{3}-\w+$ under C:\tmp\new`
	}
	if g.f.BlockDesc && g.r.Intn(2) == 0 {
		fmt.Fprintf(&g.b, "%s\"\"\"\n%s%s\n%ssecond line with \"quotes\"\n%s\"\"\"\n", indent, indent, what, indent, indent)
		return
	}
	fmt.Fprintf(&g.b, "%s%q\n", indent, what)
}

func (g *sgen) wrap(t string, maxDepth int) string {
	d := g.r.Intn(maxDepth + 1)
	out := t
	lastNonNull := false
	for i := 0; i < d; i++ {
		if !lastNonNull && g.r.Intn(2) == 0 {
			out += "!"
			lastNonNull = true
		} else {
			out = "[" + out + "]"
			lastNonNull = false
		}
	}
	return out
}

func (g *sgen) depr() string {
	if !g.f.Deprecations {
		return ""
	}
	switch g.r.Intn(7) {
	case 0:
		return " @deprecated"
	case 1:
		return ` @deprecated(reason: "use \"other\" instead")`
	case 2:
		return ` @deprecated(reason: "")` // an empty reason is a reason of its own, not the default one
	case 3:
		return ` @deprecated(reason: "line\nbreak and unié")`
	}
	return ""
}

var scalarDefaults = map[string][]string{
	"Int": {"3", "-7", "0"}, "Float": {"1.5", "-0.25", "2"}, "String": {`"abc"`, `""`, `"q\"uote \\ back"`, `"unié"`, `"^\\d+$"`, `"line\nbreak"`, `"tab\there"`, `"\u00e9t\u00e9"`}, "Boolean": {"true", "false"}, "ID": {`"id1"`, "5"},
	"Color": {"RED", "BLUE"}, "Date": {`"2020-01-01"`, "12", `{y: 2020}`},
}

func (g *sgen) defaultFor(t string, complex bool) string {
	base := strings.Trim(t, "[]!")
	isList := strings.HasPrefix(t, "[")
	if complex && !strings.HasSuffix(t, "!") && g.r.Intn(5) == 0 {
		return "null"
	}
	lit := func() string {
		if base == "Pt" {
			return pick(g.r, []string{"{x: 1}", "{x: 2, y: [true, false]}", `{x: 0, label: "l"}`})
		}
		ds := scalarDefaults[base]
		if len(ds) == 0 {
			return ""
		}
		if !complex {
			return ds[0]
		}
		return pick(g.r, ds)
	}
	if isList {
		if !complex {
			return ""
		}
		depth := strings.Count(t, "[")
		v := lit()
		if v == "" {
			return ""
		}
		el := v + ", " + lit()
		for i := 0; i < depth; i++ {
			el = "[" + el + "]"
		}
		return el
	}
	return lit()
}

func (g *sgen) args(n int) string {
	if n == 0 {
		return ""
	}
	types := []string{"Int", "String", "Boolean", "Float", "ID", "Color", "Pt", "Date", "[Int!]", "[String]", "[Pt!]"}
	var parts []string
	for i := 0; i < n; i++ {
		t := pick(g.r, types)
		if g.r.Intn(4) == 0 && !strings.HasPrefix(t, "[") {
			t = g.wrap(t, 2)
		}
		a := fmt.Sprintf("a%d: %s", i, t)
		if g.f.ArgDefaults && g.r.Intn(2) == 0 {
			if d := g.defaultFor(t, g.f.ComplexDefaults); d != "" {
				a += " = " + d
			}
		}
		if g.f.Descriptions && g.r.Intn(6) == 0 {
			a = fmt.Sprintf("%q ", "arg "+fmt.Sprint(i)) + a
		}
		parts = append(parts, a)
	}
	return "(" + strings.Join(parts, ", ") + ")"
}

// GenSchema renders a random valid schema exercising the selected type-system features.
func GenSchema(r *rand.Rand, f SchemaFeatures) string {
	g := &sgen{r: r, f: f}
	b := &g.b
	qn, mn, sn := "Query", "Mutation", "Subscription"
	if f.NonDefaultRoots {
		// any non-empty subset of the root operation types gets a name of its own
		switch mask := 1 + r.Intn(7); {
		case mask == 7:
			qn, mn, sn = "RootQuery", "RootMutation", "RootSub"
		default:
			if mask&1 != 0 {
				qn = "RootQuery"
			}
			if mask&2 != 0 {
				mn = "RootMutation"
			}
			if mask&4 != 0 {
				sn = "RootSub"
			}
		}
		b.WriteString("schema {\n  query: " + qn + "\n")
		if f.Mutation {
			b.WriteString("  mutation: " + mn + "\n")
		}
		if f.Subscription {
			b.WriteString("  subscription: " + sn + "\n")
		}
		b.WriteString("}\n")
	}
	if f.Directives {
		// every location of the specification
		locs := []string{"FIELD_DEFINITION", "OBJECT", "FIELD", "ARGUMENT_DEFINITION", "INTERFACE", "UNION", "ENUM", "ENUM_VALUE", "INPUT_OBJECT", "INPUT_FIELD_DEFINITION", "SCALAR", "QUERY", "FRAGMENT_SPREAD",
			"MUTATION", "SUBSCRIPTION", "FRAGMENT_DEFINITION", "INLINE_FRAGMENT", "VARIABLE_DEFINITION", "SCHEMA"}
		for i := 0; i < 1+r.Intn(2); i++ {
			g.desc("", fmt.Sprintf("directive d%d", i))
			fmt.Fprintf(b, "directive @d%d", i)
			if f.DirectiveArgs {
				b.WriteString(g.args(1 + r.Intn(2)))
			}
			if f.Repeatable && r.Intn(2) == 0 {
				b.WriteString(" repeatable")
			}
			n := 1 + r.Intn(4)
			perm := r.Perm(len(locs))
			var ls []string
			for _, j := range perm[:n] {
				ls = append(ls, locs[j])
			}
			b.WriteString(" on " + strings.Join(ls, " | ") + "\n")
		}
	}
	g.desc("", "a custom scalar")
	b.WriteString("scalar Date")
	if f.SpecifiedBy {
		b.WriteString(` @specifiedBy(url: "https://example.org/date")`)
	}
	b.WriteString("\n")
	g.desc("", "colors")
	b.WriteString("enum Color {\n")
	for _, v := range []string{"RED", "GREEN", "BLUE"} {
		g.desc("  ", "value "+v)
		b.WriteString("  " + v)
		if v != "RED" {
			b.WriteString(g.depr())
		}
		b.WriteString("\n")
	}
	b.WriteString("}\n")
	g.desc("", "a point")
	b.WriteString("input Pt {\n  x: Int!\n  y: [Boolean!]\n  label: String")
	if f.InputDefaults {
		b.WriteString(" = " + g.defaultFor("String", f.ComplexDefaults))
	}
	b.WriteString("\n")
	inTypes := []string{"Int", "Float", "String", "Boolean", "ID", "Color", "Date", "[Int!]", "[[Int]]", "[String]", "Pt", "[Pt!]", "[Color!]"}
	for i := 0; i < 2+r.Intn(4); i++ {
		t := pick(r, inTypes)
		if t == "Pt" || t == "[Pt!]" {
			continue // keep Pt non-recursive
		}
		g.desc("  ", fmt.Sprintf("input field %d", i))
		fmt.Fprintf(b, "  f%d: %s", i, t)
		if f.InputDefaults && r.Intn(2) == 0 {
			if d := g.defaultFor(t, f.ComplexDefaults); d != "" {
				b.WriteString(" = " + d)
			}
		}
		b.WriteString("\n")
	}
	b.WriteString("}\n")
	b.WriteString("input Search {\n  pt: Pt")
	if f.InputDefaults && f.ComplexDefaults {
		b.WriteString(" = {x: 4}")
	}
	b.WriteString("\n  pts: [Pt!]")
	if f.InputDefaults && f.ComplexDefaults && r.Intn(2) == 0 {
		b.WriteString(" = [{x: 1}, {x: 2, y: [true]}]")
	}
	b.WriteString("\n  term: String!\n}\n")
	// interfaces
	b.WriteString("interface Base {\n  id: ID!\n}\n")
	sub := "interface Named"
	if f.IfaceImplIface {
		sub += " implements Base"
	}
	g.desc("", "named things")
	b.WriteString(sub + " {\n")
	if f.IfaceImplIface {
		b.WriteString("  id: ID!\n")
	}
	b.WriteString("  name: String\n}\n")
	// object types
	outTypes := []string{"Int", "Float", "String", "Boolean", "ID", "Color", "Date", "Thing", "Other", "Named", "Base", "AnyU"}
	nameArgs := ""
	for ti, tn := range []string{"Thing", "Other"} {
		g.desc("", "type "+tn)
		impl := "Base & Named"
		if ti == 1 && r.Intn(2) == 0 {
			impl = "Base"
		}
		b.WriteString("type " + tn + " implements " + impl)
		if f.Directives && r.Intn(3) == 0 {
			// only if some directive allows OBJECT: skip to stay valid
		}
		b.WriteString(" {\n  id: ID!\n")
		if strings.Contains(impl, "Named") {
			b.WriteString("  name" + nameArgs + ": String\n")
		}
		for i := 0; i < 2+r.Intn(4); i++ {
			g.desc("  ", fmt.Sprintf("field %d of %s", i, tn))
			t := g.wrap(pick(r, outTypes), f.MaxWrapDepth)
			fmt.Fprintf(b, "  f%d%s: %s%s\n", i, g.args(r.Intn(3)), t, g.depr())
		}
		b.WriteString("}\n")
	}
	b.WriteString("type Leaf {\n  v: Int\n}\n")
	if f.Underscore {
		b.WriteString("type _Service {\n  sdl: String\n  _rev: Int\n}\nenum _Mode {\n  _ON\n  OFF\n}\ntype _Orphan {\n  x: _Mode\n}\n")
		outTypes = append(outTypes, "_Service", "_Mode")
	}
	b.WriteString("union AnyU = Thing | Leaf\n")
	if f.SharedUnionMem {
		b.WriteString("union OtherU = Other | Thing\n")
		outTypes = append(outTypes, "OtherU")
	}
	root := func(name string, n int) {
		g.desc("", "root "+name)
		b.WriteString("type " + name + " {\n")
		for i := 0; i < n; i++ {
			t := g.wrap(pick(r, outTypes), f.MaxWrapDepth)
			fmt.Fprintf(b, "  r%d%s: %s%s\n", i, g.args(r.Intn(3)), t, g.depr())
		}
		if name == qn && f.Underscore {
			b.WriteString("  _service: _Service!\n  _entities(_kind: _Mode = _ON): [AnyU]\n")
		}
		if name == qn {
			b.WriteString("  search(in: Search")
			if f.ArgDefaults && f.ComplexDefaults {
				b.WriteString(` = {term: "x", pt: {x: 9}}`)
			}
			b.WriteString("): [AnyU!]\n")
		}
		b.WriteString("}\n")
	}
	root(qn, 2+r.Intn(4))
	if f.Mutation {
		root(mn, 1+r.Intn(3))
	}
	if f.Subscription {
		root(sn, 1+r.Intn(2))
	}
	return b.String()
}
