package gen

import (
	"fmt"
	"hash/fnv"
	"strconv"
	"strings"

	"verif/harness/internal/engine"

	"github.com/vektah/gqlparser/v2/ast"
)

// DataCfg parameterises the procedural data set.
type DataCfg struct {
	Seed           uint64 `json:"seed"`
	PNull          int    `json:"pnull"`                             // percent of nullable positions that are null
	NoNullObjElems bool   `json:"no_null_object_elements,omitempty"` // elements of lists of objects are never null (keeps out of KF-C01-03's domain)
	ListMax        int    `json:"list_max"`                          // list lengths 0..ListMax
	Pool           int    `json:"pool"`                              // ids per entity type
	Hostile        bool   `json:"hostile"`                           // strings with quotes / unicode / control chars
	IDStyle        int    `json:"id_style"`                          // 0: T_n ; 1: T_n with ':' ; 2: with '#'
	FixedLen       int    `json:"fixed_len"`                         // >0: every list has exactly this length
}

// Data is the procedural data function over the monolith schema.
type Data struct {
	Cfg  DataCfg
	Mono *ast.Schema
	// MutLog, when set, is called for every resolved Mutation root field.
	MutLog func(field string, canonArgs string)
}

func hash64(parts ...string) uint64 {
	h := fnv.New64a()
	for _, p := range parts {
		h.Write([]byte(p))
		h.Write([]byte{0})
	}
	return h.Sum64()
}

func mix(h uint64, i int) uint64 {
	x := h ^ (uint64(i+1) * 0x9E3779B97F4A7C15)
	x ^= x >> 33
	x *= 0xff51afd7ed558ccd
	x ^= x >> 33
	return x
}

func (d *Data) isEntity(def *ast.Definition) bool {
	if def == nil || def.Kind != ast.Object {
		return false
	}
	for _, i := range def.Interfaces {
		if i == "Node" {
			return true
		}
	}
	return false
}

func (d *Data) isComposite(t *ast.Type) bool {
	if t.Elem != nil {
		return false
	}
	def := d.Mono.Types[t.NamedType]
	return def != nil && (def.Kind == ast.Object || def.Kind == ast.Interface || def.Kind == ast.Union)
}

func (d *Data) atRoot(base string) bool {
	// base = <parent identity>/<field>[(<canonical args>)]; root fields have the identity Query / Mutation / Subscription...
	// ("Query/top(n:4)" is at the root, "Query/top(n:4)[3]/moons" and "Query/top(n:4)[3]/moons(x:1)" are not)
	for _, root := range []string{"Query/", "Mutation/", "Subscription"} {
		if !strings.HasPrefix(base, root) {
			continue
		}
		rest := base[strings.Index(base, "/")+1:]
		if k := strings.Index(rest, "("); k >= 0 {
			if !strings.HasSuffix(rest, ")") || strings.Contains(rest[k:], ")[") || strings.Contains(rest[k:], ")/") {
				return false
			}
			rest = rest[:k]
		}
		return !strings.ContainsAny(rest, "/[")
	}
	return false
}

// MakeID renders entity id n of type t.
func (d *Data) MakeID(t string, n int) string {
	switch d.Cfg.IDStyle {
	case 1:
		return fmt.Sprintf("%s:%d", t, n)
	case 2:
		return fmt.Sprintf("%s#%d", t, n)
	}
	return fmt.Sprintf("%s_%d", t, n)
}

// TypeOfID parses an id back into its type name.
func TypeOfID(id string) (string, bool) {
	i := strings.LastIndexAny(id, "_:#")
	if i <= 0 {
		return "", false
	}
	if _, err := strconv.Atoi(id[i+1:]); err != nil {
		return "", false
	}
	return id[:i], true
}

func (d *Data) Resolve(s *ast.Schema, obj *engine.Obj, fd *ast.FieldDefinition, args map[string]any) any {
	canon := engine.Canon(args)
	if obj.Type == "Query" && fd.Name == "node" && fd.Type.Name() == "Node" {
		id, _ := args["id"].(string)
		t, ok := TypeOfID(id)
		if !ok {
			return nil
		}
		def := s.Types[t]
		if !d.isEntity(def) {
			return nil
		}
		return &engine.Obj{Type: t, Ident: id}
	}
	if fd.Name == "id" && d.isEntity(d.Mono.Types[obj.Type]) {
		return obj.Ident
	}
	if obj.Type == "Mutation" && d.MutLog != nil {
		d.MutLog(fd.Name, canon)
	}
	h := hash64(strconv.FormatUint(d.Cfg.Seed, 10), obj.Ident, fd.Name, canon)
	base := obj.Ident + "/" + fd.Name
	if canon != "" {
		base += "(" + canon + ")"
	}
	return d.gen(fd.Type, h, base)
}

var hostileStrings = []string{
	`q"uote`, `back\slash`, "unié世", "tab\there", "nl\nx", "", " ", `{"j":1}`, "#hash", "a:b", "\u0001ctl", "emoji\U0001F600",
}

func (d *Data) gen(t *ast.Type, h uint64, base string) any {
	if !t.NonNull && int((h>>8)%100) < d.Cfg.PNull {
		if !(d.Cfg.NoNullObjElems && strings.HasSuffix(base, "]") && d.isComposite(t)) {
			return nil
		}
	}
	if t.Elem != nil {
		n := 0
		if d.Cfg.FixedLen > 0 {
			n = d.Cfg.FixedLen
			// only lists directly below the root get the full length, deeper ones stay small
			if n > 2 && !d.atRoot(base) {
				n = 2
			}
		} else if d.Cfg.ListMax > 0 {
			n = int((h >> 16) % uint64(d.Cfg.ListMax+1))
		}
		out := make([]any, n)
		for i := 0; i < n; i++ {
			out[i] = d.gen(t.Elem, mix(h, i), base+"["+strconv.Itoa(i)+"]")
		}
		return out
	}
	def := d.Mono.Types[t.NamedType]
	if def == nil {
		return nil
	}
	v := h >> 24
	switch def.Kind {
	case ast.Scalar:
		switch def.Name {
		case "Int":
			return int64(v % 1000)
		case "Float":
			return float64(v%1000) / 4
		case "Boolean":
			return v%2 == 0
		case "ID":
			return "i" + strconv.FormatUint(v%100000, 36)
		default:
			if d.Cfg.Hostile && v%3 == 0 {
				return hostileStrings[(v/3)%uint64(len(hostileStrings))]
			}
			return "s" + strconv.FormatUint(v%100000, 36)
		}
	case ast.Enum:
		return def.EnumValues[v%uint64(len(def.EnumValues))].Name
	case ast.Interface, ast.Union:
		pts := d.Mono.PossibleTypes[def.Name]
		if len(pts) == 0 {
			return nil
		}
		names := make([]string, len(pts))
		for i, p := range pts {
			names[i] = p.Name
		}
		sortStrings(names)
		def = d.Mono.Types[names[(v/7)%uint64(len(names))]]
		fallthrough
	case ast.Object:
		if d.isEntity(def) {
			pool := d.Cfg.Pool
			if pool <= 0 {
				pool = 5
			}
			return &engine.Obj{Type: def.Name, Ident: d.MakeID(def.Name, int((v/11)%uint64(pool)))}
		}
		return &engine.Obj{Type: def.Name, Ident: base}
	}
	return nil
}

func sortStrings(a []string) {
	for i := 1; i < len(a); i++ {
		for j := i; j > 0 && a[j] < a[j-1]; j-- {
			a[j], a[j-1] = a[j-1], a[j]
		}
	}
}
