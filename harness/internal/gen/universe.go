// Package gen generates universes (a global type system partitioned into
// services), procedural data, and operations.
package gen

import (
	"fmt"
	"math/rand"
	"sort"
	"strings"
)

// Kind of a global type.
type Kind int

const (
	KEntity Kind = iota // object implementing Node, fields owned per service
	KValue              // object not implementing Node, declared whole wherever used
	KInterface
	KUnion
	KEnum
	KInput
	KScalar
	KSplitValue // object not implementing Node whose fields are split disjointly over services (merge-only universes)
)

type Arg struct {
	Name    string
	Type    string // GraphQL type string
	Default string // literal or ""
}

type Field struct {
	Name  string
	Type  string // GraphQL type string, e.g. "[Human!]!"
	Args  []Arg
	Owner int // owning service (entities, interface fields, roots); -1 for value/input fields
	Depr  string
	Descr string
}

type TypeDef struct {
	Name     string
	Kind     Kind
	Fields   []*Field
	Impl     []string // interfaces implemented (besides Node)
	Members  []string // union members
	Values   []string // enum values
	HasID    bool     // interface declares id: ID!
	ImplNode bool     // interface is declared `implements Node`
	Descr    string
}

// Profile tunes the generator.
type Profile struct {
	MaxServices    int
	Entities       [2]int // min,max
	Values         [2]int
	Interfaces     [2]int
	Unions         [2]int
	FieldsPerType  [2]int
	RootFields     [2]int
	PArgs          float64 // probability a field takes arguments
	PList          float64
	PNested        float64 // nested list
	Mutations      bool
	Subscriptions  bool
	Uploads        bool
	SharedRoots    bool    // same root field name on Query and Mutation
	DropNode       float64 // probability a service omits Query.node although it has entities
	Directives     bool
	Descriptions   bool
	NodeLookalike  float64 // probability of a root field shaped like node: lookup(id: ID!): Node
	SplitValue     float64 // probability of a value type declared with disjoint field sets by two services (merge-only)
	BareEntity     float64 // probability of an entity type that has no field besides id in any service
	EmptyAbstract  float64 // probability of an interface without any implementing type, reachable from a root field
	NodeNamedField float64 // probability that a single-object reference field of an object type is called `node` (edge.node style)
	PartialImpl    float64 // probability that one service declares a shared value type without one of its `implements` clauses (merge-only universes)
	ScalarArgs     bool    // fields may take an argument of the custom scalar type (meta: Stamp)
	ValueWithID    float64 // probability that a value (non-Node) type carries an `id: ID!` field
	SpreadEnum     bool    // services declare different subsets of an enum's values (merge-only universes)
	Underscore     float64 // probability of names starting with a single underscore: root fields `_health`, `_meta`, a plain type `_Meta`
	PluralNodes    float64 // probability of Relay's plural entry point nodes(ids: [ID!]!): [Node]! owned by one service
	MutationRoots  [2]int  // number of Mutation root fields (zero value: 1..4)
	AbstractRoots  bool    // interfaces and unions have at least two members where possible, and each gets a root field returning a list of it
	CommandOnly    float64 // probability of an extra service that has mutations and entity fields but no Query field besides node
	IfaceImplNode  float64 // probability that an interface over entities is declared `implements Node` (merge-only universes)
}

func DefaultProfile() Profile {
	return Profile{
		MaxServices: 4, Entities: [2]int{2, 5}, Values: [2]int{1, 3}, Interfaces: [2]int{0, 2}, Unions: [2]int{0, 2},
		FieldsPerType: [2]int{2, 5}, RootFields: [2]int{3, 7}, PArgs: 0.3, PList: 0.35, PNested: 0.0,
		Mutations: true, Subscriptions: true,
	}
}

// Universe is the global model.
type Universe struct {
	K        int
	Types    []*TypeDef
	Query    []*Field
	Mutation []*Field
	Subs     []*Field
	DropNode []bool // per service
	DirDefs  []string
	DirSvc   [][]bool              // DirSvc[d][s]: directive d is declared by service s
	EnumSvc  map[string][][]string // EnumSvc[enum][s]: values service s declares (spread enums)
	ImplOmit map[string]int        // ImplOmit["Type/Iface"] = service that declares Type without `implements Iface`
	byName   map[string]*TypeDef
}

func (u *Universe) Type(n string) *TypeDef { return u.byName[n] }

func (u *Universe) implOmitted(typ, iface string, svc int) bool {
	if svc < 0 || u.ImplOmit == nil {
		return false
	}
	s, ok := u.ImplOmit[typ+"/"+iface]
	return ok && s == svc
}

func ServiceURL(i int) string { return fmt.Sprintf("http://svc%d.test/graphql", i) }

var (
	entityNames     = []string{"Human", "Robot", "Planet", "Ship", "Film", "Guild", "Droid", "Moon"}
	valueNames      = []string{"Addr", "Stats", "Geo", "Meta", "Tag"}
	ifaceNames      = []string{"Actor", "Thing", "Owner"}
	unionNames      = []string{"Hit", "Any", "Cargo"}
	fieldNames      = []string{"name", "age", "title", "score", "rank", "code", "mass", "note", "kind", "size", "flag", "label", "count", "ratio"}
	refNames        = []string{"friend", "owner", "home", "boss", "peer", "item", "lead", "pal"}
	listNames       = []string{"friends", "crew", "parts", "items", "mates", "films", "ships", "moons"}
	rootNames       = []string{"hero", "search", "all", "top", "find", "list", "one", "main", "first", "pick", "get", "show"}
	ifaceFieldNames = [][]string{{"alpha", "beta"}, {"gamma", "delta"}, {"omega", "sigma"}}
)

func between(r *rand.Rand, mm [2]int) int {
	if mm[1] <= mm[0] {
		return mm[0]
	}
	return mm[0] + r.Intn(mm[1]-mm[0]+1)
}

func pick[T any](r *rand.Rand, xs []T) T { return xs[r.Intn(len(xs))] }

// NewUniverse builds a random universe.
func NewUniverse(r *rand.Rand, p Profile) *Universe {
	u := &Universe{byName: map[string]*TypeDef{}}
	u.K = 1 + r.Intn(p.MaxServices)
	add := func(t *TypeDef) { u.Types = append(u.Types, t); u.byName[t.Name] = t }

	// enums, inputs, custom scalar
	add(&TypeDef{Name: "Color", Kind: KEnum, Values: []string{"RED", "GREEN", "BLUE"}})
	if r.Intn(2) == 0 {
		add(&TypeDef{Name: "Mode", Kind: KEnum, Values: []string{"ON", "OFF"}})
	}
	add(&TypeDef{Name: "Stamp", Kind: KScalar})
	if p.Uploads {
		add(&TypeDef{Name: "Upload", Kind: KScalar})
	}
	add(&TypeDef{Name: "Page", Kind: KInput, Fields: []*Field{
		{Name: "limit", Type: "Int", Owner: -1},
		{Name: "after", Type: "String", Owner: -1},
	}})
	add(&TypeDef{Name: "Filter", Kind: KInput, Fields: []*Field{
		{Name: "color", Type: "Color", Owner: -1},
		{Name: "min", Type: "Int", Owner: -1},
		{Name: "tags", Type: "[String!]", Owner: -1},
		{Name: "page", Type: "Page", Owner: -1},
	}})

	ne := between(r, p.Entities)
	nv := between(r, p.Values)
	ni := between(r, p.Interfaces)
	nu := between(r, p.Unions)
	var ents, vals []string
	for i := 0; i < ne && i < len(entityNames); i++ {
		ents = append(ents, entityNames[i])
		add(&TypeDef{Name: entityNames[i], Kind: KEntity})
	}
	for i := 0; i < nv && i < len(valueNames); i++ {
		vals = append(vals, valueNames[i])
		vt := &TypeDef{Name: valueNames[i], Kind: KValue}
		if p.ValueWithID > 0 && r.Float64() < p.ValueWithID {
			// a plain (non-Node) type that happens to have an id field
			vt.Fields = append(vt.Fields, &Field{Name: "id", Type: "ID!", Owner: -1})
		}
		add(vt)
	}
	// interfaces over entities (with id) or over value types (without)
	var ifaces []string
	for i := 0; i < ni && i < len(ifaceNames); i++ {
		it := &TypeDef{Name: ifaceNames[i], Kind: KInterface}
		overEnt := len(vals) < 2 || r.Intn(3) > 0
		var pool []string
		if overEnt {
			pool = ents
			it.HasID = true
		} else {
			pool = vals
		}
		nm := 1 + r.Intn(len(pool))
		if p.AbstractRoots && nm < 2 && len(pool) >= 2 {
			nm = 2
		}
		perm := r.Perm(len(pool))
		for _, j := range perm[:nm] {
			m := u.byName[pool[j]]
			m.Impl = append(m.Impl, it.Name)
		}
		if it.HasID && p.IfaceImplNode > 0 && r.Float64() < p.IfaceImplNode {
			it.ImplNode = true
		}
		ifaces = append(ifaces, it.Name)
		add(it)
		if p.PartialImpl > 0 && !it.HasID {
			for _, m := range u.Types {
				if m.Kind == KValue && contains(m.Impl, it.Name) && r.Float64() < p.PartialImpl {
					if u.ImplOmit == nil {
						u.ImplOmit = map[string]int{}
					}
					u.ImplOmit[m.Name+"/"+it.Name] = r.Intn(u.K)
				}
			}
		}
	}
	var unions []string
	for i := 0; i < nu && i < len(unionNames); i++ {
		ut := &TypeDef{Name: unionNames[i], Kind: KUnion}
		pool := ents
		if len(vals) >= 2 && r.Intn(3) == 0 {
			pool = vals
		}
		nm := 1 + r.Intn(len(pool))
		if p.AbstractRoots && nm < 2 && len(pool) >= 2 {
			nm = 2
		}
		perm := r.Perm(len(pool))
		for _, j := range perm[:nm] {
			ut.Members = append(ut.Members, pool[j])
		}
		sort.Strings(ut.Members)
		unions = append(unions, ut.Name)
		add(ut)
	}

	scalarTypes := []string{"Int", "Float", "String", "Boolean", "ID", "Color", "Stamp"}
	wrapLeaf := func(t string) string {
		switch r.Intn(6) {
		case 0:
			return t + "!"
		case 1:
			if r.Float64() < p.PList*2 {
				return "[" + t + "!]"
			}
		case 2:
			if r.Float64() < p.PList*2 {
				return "[" + t + "]"
			}
		}
		return t
	}
	wrapRef := func(t string) string {
		if r.Float64() < p.PNested {
			return "[[" + t + "!]!]"
		}
		if r.Float64() < p.PList {
			switch r.Intn(4) {
			case 0:
				return "[" + t + "!]!"
			case 1:
				return "[" + t + "]"
			case 2:
				return "[" + t + "!]"
			default:
				return "[" + t + "]!"
			}
		}
		if r.Intn(3) == 0 {
			return t + "!"
		}
		return t
	}
	mkArgs := func() []Arg {
		if r.Float64() >= p.PArgs {
			return nil
		}
		var as []Arg
		n := 1 + r.Intn(2)
		cands := []Arg{
			{Name: "n", Type: "Int"}, {Name: "n", Type: "Int", Default: "3"}, {Name: "n", Type: "Int!"},
			{Name: "q", Type: "String"}, {Name: "q", Type: "String", Default: `"dflt"`},
			{Name: "c", Type: "Color"}, {Name: "c", Type: "Color", Default: "GREEN"},
			{Name: "f", Type: "Filter"}, {Name: "p", Type: "Page", Default: "{limit: 5}"},
			{Name: "ids", Type: "[ID!]"}, {Name: "x", Type: "Float"}, {Name: "b", Type: "Boolean", Default: "true"},
			{Name: "fs", Type: "[Filter!]"},
		}
		if p.ScalarArgs {
			cands = append(cands, Arg{Name: "meta", Type: "Stamp"}, Arg{Name: "meta", Type: "Stamp"}, Arg{Name: "meta", Type: "Stamp!"}, Arg{Name: "metas", Type: "[Stamp!]"})
		}
		used := map[string]bool{}
		for i := 0; i < n; i++ {
			a := pick(r, cands)
			if used[a.Name] {
				continue
			}
			used[a.Name] = true
			as = append(as, a)
		}
		return as
	}
	refTargets := func() []string {
		var t []string
		t = append(t, ents...)
		t = append(t, ents...) // weight entities
		t = append(t, vals...)
		t = append(t, ifaces...)
		t = append(t, unions...)
		return t
	}()

	// fields of object types
	genFields := func(t *TypeDef, ownerOf func() int) {
		n := between(r, p.FieldsPerType)
		used := map[string]bool{"id": true}
		for _, f := range t.Fields {
			used[f.Name] = true
		}
		for i := 0; i < n; i++ {
			var f *Field
			if r.Intn(5) < 3 {
				nm := pick(r, fieldNames)
				if used[nm] {
					continue
				}
				f = &Field{Name: nm, Type: wrapLeaf(pick(r, scalarTypes))}
			} else {
				target := pick(r, refTargets)
				if t.Kind == KValue && target == t.Name {
					continue // avoid trivially infinite non-null recursion
				}
				ty := wrapRef(target)
				nm := pick(r, refNames)
				if strings.HasPrefix(ty, "[") {
					nm = pick(r, listNames)
				} else if p.NodeNamedField > 0 && r.Float64() < p.NodeNamedField {
					nm = "node"
				}
				if used[nm] {
					continue
				}
				if t.Kind == KValue || u.byName[target].Kind == KValue || u.byName[target].Kind == KUnion || u.byName[target].Kind == KInterface {
					// keep value-type recursion nullable so data terminates
					ty = strings.TrimSuffix(ty, "!")
				}
				f = &Field{Name: nm, Type: ty}
			}
			used[f.Name] = true
			f.Args = mkArgs()
			f.Owner = ownerOf()
			t.Fields = append(t.Fields, f)
		}
	}
	// interface fields first: they are copied onto each member with the same owner
	for _, in := range ifaces {
		it := u.byName[in]
		n := 1 + r.Intn(2)
		for i := 0; i < n; i++ {
			nm := ifaceFieldNames[indexOf(ifaceNames, in)][i]
			owner := -1
			if it.HasID {
				owner = r.Intn(u.K)
			}
			it.Fields = append(it.Fields, &Field{Name: nm, Type: wrapLeaf(pick(r, scalarTypes)), Owner: owner, Args: mkArgs()})
		}
	}
	for _, t := range u.Types {
		if t.Kind != KEntity && t.Kind != KValue {
			continue
		}
		for _, in := range t.Impl {
			for _, f := range u.byName[in].Fields {
				dup := false
				for _, g := range t.Fields {
					if g.Name == f.Name {
						dup = true
					}
				}
				if !dup {
					c := *f
					t.Fields = append(t.Fields, &c)
				}
			}
		}
	}
	for _, t := range u.Types {
		switch t.Kind {
		case KEntity:
			genFields(t, func() int { return r.Intn(u.K) })
		case KValue:
			genFields(t, func() int { return -1 })
			if len(t.Fields) == 0 {
				t.Fields = append(t.Fields, &Field{Name: "note", Type: "String", Owner: -1})
			}
		}
	}

	if p.BareEntity > 0 && r.Float64() < p.BareEntity {
		add(&TypeDef{Name: "Tag", Kind: KEntity})
		ents = append(ents, "Tag")
		refTargets = append(refTargets, "Tag", "Tag")
	}
	var splitRoots []*Field
	if p.SplitValue > 0 && u.K >= 2 && r.Float64() < p.SplitValue {
		a := r.Intn(u.K)
		b := (a + 1 + r.Intn(u.K-1)) % u.K
		add(&TypeDef{Name: "Dims", Kind: KSplitValue, Fields: []*Field{
			{Name: "width", Type: "Int", Owner: a}, {Name: "height", Type: "Int", Owner: a}, {Name: "weight", Type: "Float", Owner: b},
		}})
		splitRoots = []*Field{{Name: "dimsA", Type: "Dims", Owner: a}, {Name: "dimsB", Type: "Dims", Owner: b}}
	}
	if p.Underscore > 0 && r.Float64() < p.Underscore {
		add(&TypeDef{Name: "_Meta", Kind: KValue, Fields: []*Field{{Name: "_rev", Type: "Int", Owner: -1}, {Name: "note", Type: "String", Owner: -1}}})
		splitRoots = append(splitRoots, &Field{Name: "_health", Type: "String", Owner: r.Intn(u.K)}, &Field{Name: "_meta", Type: "_Meta", Owner: r.Intn(u.K)})
	}
	if p.EmptyAbstract > 0 && r.Float64() < p.EmptyAbstract {
		add(&TypeDef{Name: "Lonely", Kind: KInterface, Fields: []*Field{{Name: "x", Type: "Int", Owner: -1}}})
		splitRoots = append(splitRoots, &Field{Name: "lonely", Type: "Lonely", Owner: r.Intn(u.K)}, &Field{Name: "lonelies", Type: "[Lonely!]", Owner: r.Intn(u.K)})
	}
	// roots
	mkRoots := func(n int, names []string, used map[string]bool) []*Field {
		var out []*Field
		for i := 0; i < n; i++ {
			nm := pick(r, names)
			if used[nm] {
				continue
			}
			used[nm] = true
			var ty string
			if r.Intn(5) == 0 {
				ty = wrapLeaf(pick(r, scalarTypes))
			} else {
				ty = wrapRef(pick(r, refTargets))
			}
			out = append(out, &Field{Name: nm, Type: ty, Args: mkArgs(), Owner: r.Intn(u.K)})
		}
		return out
	}
	qUsed := map[string]bool{"node": true}
	u.Query = append(mkRoots(between(r, p.RootFields), rootNames, qUsed), splitRoots...)
	if p.AbstractRoots {
		for _, n := range append(append([]string{}, ifaces...), unions...) {
			u.Query = append(u.Query, &Field{Name: "every" + n, Type: "[" + n + "]", Owner: r.Intn(u.K)})
		}
	}
	// every service owns at least one Query field
	for s := 0; s < u.K; s++ {
		has := false
		for _, f := range u.Query {
			if f.Owner == s {
				has = true
			}
		}
		if !has {
			nm := fmt.Sprintf("svc%dInfo", s)
			ty := "String"
			if len(ents) > 0 && r.Intn(2) == 0 {
				ty = wrapRef(pick(r, ents))
			}
			u.Query = append(u.Query, &Field{Name: nm, Type: ty, Owner: s})
		}
	}
	if p.Mutations {
		mUsed := map[string]bool{}
		names := []string{"create", "update", "remove", "rename", "touch", "bump", "reset", "mark"}
		if p.SharedRoots {
			names = append(names, rootNames...)
		}
		nm := 1 + r.Intn(4)
		if p.MutationRoots[1] > 0 {
			nm = between(r, p.MutationRoots)
		}
		u.Mutation = mkRoots(nm, names, mUsed)
		if p.SharedRoots {
			// the same root field (name and signature) on Query and Mutation, owned by different services
			for i := 0; i < 2 && i < len(u.Query); i++ {
				f := u.Query[r.Intn(len(u.Query))]
				if mUsed[f.Name] || f.Name == "lookup" || BaseName(f.Type) == "Dims" {
					continue
				}
				mUsed[f.Name] = true
				c := *f
				c.Owner = (f.Owner + 1) % u.K
				u.Mutation = append(u.Mutation, &c)
			}
		}
	}
	cmdOnly := -1
	if p.CommandOnly > 0 && p.Mutations && len(ents) > 0 && r.Float64() < p.CommandOnly {
		// a command service: it takes mutations and extends an entity, its Query type is the Relay entry point alone
		cmdOnly = u.K
		u.K++
		ent := pick(r, ents)
		u.Mutation = append(u.Mutation, &Field{Name: "record", Type: ent, Args: []Arg{{Name: "note", Type: "String"}}, Owner: cmdOnly})
		et := u.byName[ent]
		et.Fields = append(et.Fields, &Field{Name: "audit", Type: "String", Owner: cmdOnly})
	}
	if p.Uploads {
		add(&TypeDef{Name: "FileIn", Kind: KInput, Fields: []*Field{
			{Name: "f", Type: "Upload", Owner: -1}, {Name: "fs", Type: "[Upload]", Owner: -1}, {Name: "note", Type: "String", Owner: -1},
			{Name: "inner", Type: "FileIn2", Owner: -1},
		}})
		add(&TypeDef{Name: "FileIn2", Kind: KInput, Fields: []*Field{{Name: "g", Type: "Upload", Owner: -1}, {Name: "gs", Type: "[Upload!]", Owner: -1}}})
		ent := "String"
		if len(ents) > 0 {
			ent = pick(r, ents)
		}
		u.Mutation = append(u.Mutation,
			&Field{Name: "upOne", Type: "String", Args: []Arg{{Name: "file", Type: "Upload"}}, Owner: r.Intn(u.K)},
			&Field{Name: "upMany", Type: "[String!]", Args: []Arg{{Name: "files", Type: "[Upload]"}, {Name: "tag", Type: "String"}}, Owner: r.Intn(u.K)},
			&Field{Name: "upIn", Type: "String", Args: []Arg{{Name: "in", Type: "FileIn"}}, Owner: r.Intn(u.K)},
			&Field{Name: "upIn2", Type: "String", Args: []Arg{{Name: "in", Type: "FileIn"}, {Name: "ins", Type: "[FileIn]"}}, Owner: r.Intn(u.K)},
			&Field{Name: "upEnt", Type: ent, Args: []Arg{{Name: "file", Type: "Upload"}, {Name: "other", Type: "Upload"}}, Owner: r.Intn(u.K)},
			&Field{Name: "upTwo", Type: "String", Args: []Arg{{Name: "a", Type: "Upload"}, {Name: "b", Type: "Upload"}}, Owner: r.Intn(u.K)},
		)
	}
	if p.Subscriptions {
		sUsed := map[string]bool{}
		u.Subs = mkRoots(1+r.Intn(2), []string{"onEvent", "watch", "feed", "ticks"}, sUsed)
		for _, f := range u.Subs {
			f.Args = append([]Arg{{Name: "marker", Type: "String"}}, dropArg(f.Args, "marker")...)
		}
	}
	u.DropNode = make([]bool, u.K)
	for s := range u.DropNode {
		u.DropNode[s] = r.Float64() < p.DropNode
	}
	if cmdOnly >= 0 {
		u.DropNode[cmdOnly] = false
	}
	if p.Directives {
		u.DirDefs = []string{
			"directive @tag(name: String = \"x\") on FIELD | FIELD_DEFINITION | OBJECT",
			"directive @trace(level: Int, on: Boolean = true) on QUERY | FIELD",
		}
		if r.Intn(4) == 0 {
			u.DirDefs = append(u.DirDefs, "directive @again(n: Int) repeatable on FIELD")
		}
		u.DirSvc = make([][]bool, len(u.DirDefs))
		for d := range u.DirDefs {
			u.DirSvc[d] = make([]bool, u.K)
			u.DirSvc[d][r.Intn(u.K)] = true
			for s := 0; s < u.K; s++ {
				if r.Intn(2) == 0 {
					u.DirSvc[d][s] = true
				}
			}
		}
	}
	if p.SpreadEnum && u.K > 1 {
		u.EnumSvc = map[string][][]string{}
		for _, t := range u.Types {
			if t.Kind != KEnum {
				continue
			}
			t.Values = append(t.Values, "EXTRA", "MORE")
			per := make([][]string, u.K)
			for i, v := range t.Values {
				owner := r.Intn(u.K)
				for sv := 0; sv < u.K; sv++ {
					if sv == owner || r.Intn(2) == 0 || i == 0 {
						per[sv] = append(per[sv], v)
					}
				}
			}
			u.EnumSvc[t.Name] = per
		}
	}
	if p.PluralNodes > 0 && len(ents) > 0 && r.Float64() < p.PluralNodes {
		u.Query = append(u.Query, &Field{Name: "nodes", Type: "[Node]!", Args: []Arg{{Name: "ids", Type: "[ID!]!"}}, Owner: r.Intn(u.K)})
	}
	if p.NodeLookalike > 0 && len(ents) > 0 && r.Float64() < p.NodeLookalike {
		u.Query = append(u.Query, &Field{Name: "lookup", Type: "Node", Args: []Arg{{Name: "id", Type: "ID!"}}, Owner: r.Intn(u.K)})
	}
	if p.Descriptions {
		for _, t := range u.Types {
			if r.Intn(3) == 0 {
				t.Descr = "about " + t.Name
			}
			for _, f := range t.Fields {
				if r.Intn(5) == 0 {
					f.Descr = "the " + f.Name
				}
				if r.Intn(9) == 0 && t.Kind != KInput {
					f.Depr = "old"
				}
			}
		}
	}
	return u
}

func dropArg(as []Arg, n string) []Arg {
	var out []Arg
	for _, a := range as {
		if a.Name != n {
			out = append(out, a)
		}
	}
	return out
}

func indexOf(xs []string, x string) int {
	for i, y := range xs {
		if y == x {
			return i
		}
	}
	return -1
}

func contains(xs []string, x string) bool {
	for _, y := range xs {
		if y == x {
			return true
		}
	}
	return false
}

// baseName strips wrappers from a type string.
func BaseName(t string) string {
	return strings.Trim(t, "[]!")
}

// ---------------------------------------------------------------- projection

type needSet struct {
	u     *Universe
	svc   int // -1 = monolith
	types map[string]bool
}

func (n *needSet) needType(name string) {
	t := n.u.byName[name]
	if t == nil || n.types[name] {
		return
	}
	n.types[name] = true
	switch t.Kind {
	case KEntity:
		for _, in := range t.Impl {
			n.needType(in)
		}
		for _, f := range t.Fields {
			if n.svc < 0 || f.Owner == n.svc {
				n.needField(f)
			}
		}
	case KValue:
		for _, in := range t.Impl {
			if n.u.implOmitted(t.Name, in, n.svc) {
				continue
			}
			n.needType(in)
		}
		for _, f := range t.Fields {
			n.needField(f)
		}
	case KSplitValue:
		for _, f := range t.Fields {
			if n.svc < 0 || f.Owner == n.svc {
				n.needField(f)
			}
		}
	case KInterface:
		for _, m := range n.u.Types {
			if contains(m.Impl, name) {
				n.needType(m.Name)
			}
		}
		for _, f := range t.Fields {
			if n.svc < 0 || f.Owner == n.svc || f.Owner == -1 {
				n.needField(f)
			}
		}
	case KUnion:
		for _, m := range t.Members {
			n.needType(m)
		}
	case KInput:
		for _, f := range t.Fields {
			n.needField(f)
		}
	}
}

func (n *needSet) needField(f *Field) {
	n.needType(BaseName(f.Type))
	for _, a := range f.Args {
		n.needType(BaseName(a.Type))
	}
}

func fieldSDL(f *Field) string {
	var b strings.Builder
	if f.Descr != "" {
		fmt.Fprintf(&b, "  %q\n", f.Descr)
	}
	b.WriteString("  " + f.Name)
	if len(f.Args) > 0 {
		b.WriteString("(")
		for i, a := range f.Args {
			if i > 0 {
				b.WriteString(", ")
			}
			b.WriteString(a.Name + ": " + a.Type)
			if a.Default != "" {
				b.WriteString(" = " + a.Default)
			}
		}
		b.WriteString(")")
	}
	b.WriteString(": " + f.Type)
	if f.Depr != "" {
		fmt.Fprintf(&b, " @deprecated(reason: %q)", f.Depr)
	}
	b.WriteString("\n")
	return b.String()
}

// SDL renders the schema of service svc (or the monolith for svc < 0).
func (u *Universe) SDL(svc int) string {
	n := &needSet{u: u, svc: svc, types: map[string]bool{}}
	roots := func(fs []*Field) []*Field {
		var out []*Field
		for _, f := range fs {
			if svc < 0 || f.Owner == svc {
				out = append(out, f)
				n.needField(f)
			}
		}
		return out
	}
	q, m, s := roots(u.Query), roots(u.Mutation), roots(u.Subs)
	// entities with an owned field are declared even when unreachable from the roots
	for _, t := range u.Types {
		if t.Kind == KEntity {
			for _, f := range t.Fields {
				if svc < 0 || f.Owner == svc {
					n.needType(t.Name)
				}
			}
		}
	}
	hasEntity := false
	for name := range n.types {
		if u.byName[name].Kind == KEntity {
			hasEntity = true
		}
	}
	if !hasEntity {
		// a root field typed Node (lookup(id: ID!): Node) in a service without entities: declare one, so that Node exists
		for _, f := range u.Query {
			if (svc < 0 || f.Owner == svc) && BaseName(f.Type) == "Node" && f.Name != "node" {
				for _, t := range u.Types {
					if t.Kind == KEntity {
						n.needType(t.Name)
						hasEntity = true
						break
					}
				}
			}
		}
	}
	var b strings.Builder
	for di, d := range u.DirDefs {
		if svc < 0 || u.DirSvc[di][svc] {
			b.WriteString(d + "\n")
		}
	}
	if hasEntity {
		b.WriteString("interface Node {\n  id: ID!\n}\n")
	}
	for _, t := range u.Types {
		if !n.types[t.Name] {
			continue
		}
		if t.Descr != "" {
			fmt.Fprintf(&b, "%q\n", t.Descr)
		}
		switch t.Kind {
		case KSplitValue:
			b.WriteString("type " + t.Name + " {\n")
			for _, f := range t.Fields {
				if svc < 0 || f.Owner == svc {
					b.WriteString(fieldSDL(f))
				}
			}
			b.WriteString("}\n")
		case KEntity, KValue:
			impl := []string{}
			for _, in := range t.Impl {
				if n.types[in] && !u.implOmitted(t.Name, in, svc) {
					impl = append(impl, in)
				}
			}
			if t.Kind == KEntity {
				impl = append(impl, "Node")
			}
			b.WriteString("type " + t.Name)
			if len(impl) > 0 {
				b.WriteString(" implements " + strings.Join(impl, " & "))
			}
			b.WriteString(" {\n")
			if t.Kind == KEntity {
				b.WriteString("  id: ID!\n")
			}
			for _, f := range t.Fields {
				if t.Kind == KValue || svc < 0 || f.Owner == svc {
					b.WriteString(fieldSDL(f))
				}
			}
			b.WriteString("}\n")
		case KInterface:
			b.WriteString("interface " + t.Name)
			if t.ImplNode && hasEntity {
				b.WriteString(" implements Node")
			}
			b.WriteString(" {\n")
			if t.HasID {
				b.WriteString("  id: ID!\n")
			}
			cnt := 0
			for _, f := range t.Fields {
				if svc < 0 || f.Owner == svc || f.Owner == -1 {
					b.WriteString(fieldSDL(f))
					cnt++
				}
			}
			_ = cnt
			b.WriteString("}\n")
		case KUnion:
			b.WriteString("union " + t.Name + " = " + strings.Join(t.Members, " | ") + "\n")
		case KEnum:
			vals := t.Values
			if svc >= 0 && u.EnumSvc != nil && u.EnumSvc[t.Name] != nil {
				vals = u.EnumSvc[t.Name][svc]
			}
			b.WriteString("enum " + t.Name + " {\n  " + strings.Join(vals, "\n  ") + "\n}\n")
		case KInput:
			b.WriteString("input " + t.Name + " {\n")
			for _, f := range t.Fields {
				b.WriteString(fieldSDL(f))
			}
			b.WriteString("}\n")
		case KScalar:
			b.WriteString("scalar " + t.Name + "\n")
		}
	}
	b.WriteString("type Query {\n")
	if hasEntity && (svc < 0 || !u.DropNode[svc]) {
		b.WriteString("  node(id: ID!): Node\n")
	}
	for _, f := range q {
		b.WriteString(fieldSDL(f))
	}
	b.WriteString("}\n")
	if len(m) > 0 {
		b.WriteString("type Mutation {\n")
		for _, f := range m {
			b.WriteString(fieldSDL(f))
		}
		b.WriteString("}\n")
	}
	if len(s) > 0 {
		b.WriteString("type Subscription {\n")
		for _, f := range s {
			b.WriteString(fieldSDL(f))
		}
		b.WriteString("}\n")
	}
	return b.String()
}
