// Package rig assembles a real pebbles gateway in front of fake services.
package rig

import (
	"bytes"
	"encoding/json"
	"fmt"
	"hash/fnv"
	"net/http"
	"net/http/httptest"
	"runtime/debug"
	"strings"
	"sync"
	"sync/atomic"
	"time"

	"verif/harness/internal/fake"
	"verif/harness/internal/gen"

	pebbles "github.com/buildbuildio/pebbles"
	"github.com/buildbuildio/pebbles/merger"
	"github.com/buildbuildio/pebbles/planner"
	"github.com/buildbuildio/pebbles/queryer"
	"github.com/vektah/gqlparser/v2"
	"github.com/vektah/gqlparser/v2/ast"
)

// ServiceSpec is one service of a universe.
type ServiceSpec struct {
	Name string `json:"name"`
	SDL  string `json:"sdl"`
	// Wire: comma separated variations of how the service is reached and words its answers
	// (slash, emptyerrs, s203, s207, redirect); none of them changes what the answers mean.
	Wire string `json:"wire,omitempty"`
}

// wireOf derives the wire style of service i from its SDL, so that it is a function of the universe.
func wireOf(i int, sdl string) string {
	h := fnv.New32a()
	h.Write([]byte(sdl))
	switch (int(h.Sum32()>>4) + i) % 12 {
	case 0:
		return "slash"
	case 1:
		return "emptyerrs"
	case 2:
		return "s207"
	case 3:
		return "s203,emptyerrs,slash"
	case 4:
		return "redirect"
	}
	return ""
}

// UniverseSpec is the serialisable description of a universe.
type UniverseSpec struct {
	Services []ServiceSpec `json:"services"`
	Mono     string        `json:"mono"`
	Data     gen.DataCfg   `json:"data"`
}

// Config selects the gateway configuration.
type Config struct {
	Merger        string `json:"merger"`                   // "" | "sanitize"
	Hint          bool   `json:"hint"`                     // WithGetParentTypeFromIDFunc
	Planner       string `json:"planner"`                  // "" | "cached"
	TTLms         int    `json:"ttl_ms"`                   // cache ttl
	Introspect    string `json:"introspect"`               // "" (exact) | "e2e"
	MaxBatch      int    `json:"max_batch"`                // 0: default factory (3000 over http.DefaultClient)
	SharedQueryer bool   `json:"shared_queryer,omitempty"` // with MaxBatch: the factory returns one MultiOpQueryer per service for all operations
	TCP           bool   `json:"tcp,omitempty"`            // the services are reached through a real net/http transport and loopback listeners (keep-alive pool, net/http's replay rules)
	WriteGapUs    int    `json:"write_gap_us,omitempty"`   // websocket rigs: pause after every short write (a frame header) on gateway->client connections
}

func (c Config) String() string {
	return fmt.Sprintf("merger=%s hint=%v planner=%s ttl=%d intro=%s mb=%d", c.Merger, c.Hint, c.Planner, c.TTLms, c.Introspect, c.MaxBatch)
}

// FromUniverse renders a generated universe as a spec.
func FromUniverse(u *gen.Universe, data gen.DataCfg) UniverseSpec {
	us := UniverseSpec{Mono: u.SDL(-1), Data: data}
	for i := 0; i < u.K; i++ {
		sdl := u.SDL(i)
		us.Services = append(us.Services, ServiceSpec{Name: fmt.Sprintf("svc%d", i), SDL: sdl, Wire: wireOf(i, sdl)})
	}
	return us
}

var rigSeq int64

// Rig is a gateway + its fake services.
type Rig struct {
	Spec      UniverseSpec
	Cfg       Config
	Services  []*fake.Service
	URLs      []string
	Mono      *ast.Schema
	Data      *gen.Data
	Log       *fake.Log
	GW        *pebbles.Gateway
	Merged    *merger.MergeResult
	PlanCnt   *int64
	planner   planner.Planner
	Upstreams []*fake.WSUpstream
	Server    *httptest.Server
}

type exactIntrospector struct{ r *Rig }

func (e exactIntrospector) IntrospectRemoteSchemas(urls ...string) ([]*ast.Schema, error) {
	var out []*ast.Schema
	for _, u := range urls {
		var sdl string
		for _, s := range e.r.Services {
			if s.URL == u {
				sdl = s.SDL
			}
		}
		sc, err := gqlparser.LoadSchema(&ast.Source{Name: u, Input: sdl})
		if err != nil {
			return nil, err
		}
		out = append(out, sc)
	}
	return out, nil
}

type captureMerger struct {
	inner merger.Merger
	r     *Rig
}

func (c captureMerger) Merge(in []*merger.MergeInput) (*merger.MergeResult, error) {
	res, err := c.inner.Merge(in)
	if err == nil {
		c.r.Merged = res
	}
	return res, err
}

type countingPlanner struct {
	inner planner.Planner
	n     *int64
}

func (c countingPlanner) Plan(ctx *planner.PlanningContext) (*planner.QueryPlan, error) {
	atomic.AddInt64(c.n, 1)
	return c.inner.Plan(ctx)
}

// HintFn is the id -> type function handed to the gateway when Config.Hint is set.
func HintFn(id interface{}) (string, bool) {
	s, ok := id.(string)
	if !ok {
		return "", false
	}
	return gen.TypeOfID(s)
}

// LoadMono loads the monolith schema and data function of a spec.
func LoadMono(spec UniverseSpec) (*ast.Schema, *gen.Data, error) {
	mono, err := gqlparser.LoadSchema(&ast.Source{Name: "mono", Input: spec.Mono})
	if err != nil {
		return nil, nil, fmt.Errorf("generator bug: monolith SDL does not load: %v", err)
	}
	return mono, &gen.Data{Cfg: spec.Data, Mono: mono}, nil
}

// NewServices builds the fake services of a spec and registers them with the in-memory transport.
func NewServices(spec UniverseSpec) (*Rig, error) {
	id := atomic.AddInt64(&rigSeq, 1)
	r := &Rig{Spec: spec, Log: &fake.Log{}}
	mono, data, err := LoadMono(spec)
	if err != nil {
		return nil, err
	}
	r.Mono, r.Data = mono, data
	for i, ss := range spec.Services {
		url := fmt.Sprintf("http://u%d-s%d.test/graphql", id, i)
		if strings.Contains(ss.Wire, "slash") {
			url += "/"
		}
		svc, err := fake.NewService(ss.Name, url, ss.SDL, data, r.Log)
		if err != nil {
			return nil, fmt.Errorf("generator bug: %v", err)
		}
		svc.ApplyWire(ss.Wire)
		fake.Global.Register(svc)
		r.Services = append(r.Services, svc)
		r.URLs = append(r.URLs, url)
	}
	return r, nil
}

// New builds the services and a gateway over them.  A non-nil error with
// r != nil means NewGateway failed (r.Services are still registered).
func New(spec UniverseSpec, cfg Config) (*Rig, error) {
	r, err := NewServices(spec)
	if err != nil {
		return nil, err
	}
	r.Cfg = cfg
	if cfg.TCP {
		for _, s := range r.Services {
			if err := s.StartTCP(); err != nil {
				return r, err
			}
		}
	}
	if err := r.StartGateway(r.URLs); err != nil {
		return r, err
	}
	return r, nil
}

// GatewayPanic is returned when NewGateway panicked.
type GatewayPanic struct {
	Val   any
	Stack string
}

func (g *GatewayPanic) Error() string { return fmt.Sprintf("NewGateway panicked: %v", g.Val) }

// StartGateway (re)creates the gateway over the given URL order.
func (r *Rig) StartGateway(urls []string) (err error) {
	cfg := r.Cfg
	var opts []pebbles.GatewayOption
	var m merger.Merger
	if cfg.Merger == "sanitize" {
		var sm merger.SanitizeNodeMergerFunc
		m = sm
	} else {
		var em merger.ExtendMergerFunc
		m = em
	}
	opts = append(opts, pebbles.WithMerger(captureMerger{m, r}))
	if cfg.Introspect != "e2e" {
		opts = append(opts, pebbles.WithRemoteSchemaIntrospector(exactIntrospector{r}))
	}
	if cfg.Hint {
		opts = append(opts, pebbles.WithGetParentTypeFromIDFunc(HintFn))
	}
	var n int64
	r.PlanCnt = &n
	var sp planner.SequentialPlanner
	if cfg.Planner == "cached" {
		cp := planner.NewCachedPlanner(time.Duration(cfg.TTLms) * time.Millisecond).WithPlannerExecutor(countingPlanner{sp, &n})
		r.planner = cp
	} else {
		r.planner = countingPlanner{sp, &n}
	}
	opts = append(opts, pebbles.WithPlanner(r.planner))
	if cfg.MaxBatch > 0 && cfg.SharedQueryer {
		// one long-lived downstream client per service, handed to every operation (a custom factory may do that)
		mb := cfg.MaxBatch
		var qmu sync.Mutex
		shared := map[string]queryer.Queryer{}
		opts = append(opts, pebbles.WithQueryerFactory(func(ctx *planner.PlanningContext, url string) queryer.Queryer {
			qmu.Lock()
			defer qmu.Unlock()
			if q, ok := shared[url]; ok {
				return q
			}
			q := queryer.NewMultiOpQueryer(url, mb).WithHTTPClient(&http.Client{Transport: fake.Global})
			shared[url] = q
			return q
		}))
	} else if cfg.MaxBatch > 0 {
		mb := cfg.MaxBatch
		opts = append(opts, pebbles.WithQueryerFactory(func(ctx *planner.PlanningContext, url string) queryer.Queryer {
			return queryer.NewMultiOpQueryer(url, mb).WithHTTPClient(&http.Client{Transport: fake.Global}).WithContext(ctx.Request.Original.Context())
		}))
	}
	defer func() {
		if p := recover(); p != nil {
			err = &GatewayPanic{Val: p, Stack: string(debug.Stack())}
		}
	}()
	gw, gerr := pebbles.NewGateway(urls, opts...)
	if gerr != nil {
		return gerr
	}
	r.GW = gw
	return nil
}

// Close unregisters the services.
func (r *Rig) Close() {
	for _, s := range r.Services {
		fake.Global.Unregister(s)
		s.StopTCP()
	}
}

// HTTPResult is the outcome of one request through Gateway.Handler.
type HTTPResult struct {
	Status int
	Body   []byte
	Header http.Header
	Panic  any
	Stack  string
}

// Do sends one raw POST to the gateway handler (in-process recorder).
func (r *Rig) Do(contentType string, body []byte) *HTTPResult {
	return r.DoMethod("POST", contentType, body)
}

func (r *Rig) DoMethod(method, contentType string, body []byte) (res *HTTPResult) {
	req := httptest.NewRequest(method, "/graphql", bytes.NewReader(body))
	if contentType != "" {
		req.Header.Set("Content-Type", contentType)
	}
	rec := httptest.NewRecorder()
	res = &HTTPResult{}
	func() {
		defer func() {
			if p := recover(); p != nil {
				res.Panic = p
				res.Stack = string(debug.Stack())
			}
		}()
		r.GW.Handler(rec, req)
	}()
	// what net/http's server does when a request ends: files of a multipart form that were spooled to disk go away
	if req.MultipartForm != nil {
		req.MultipartForm.RemoveAll()
	}
	res.Status = rec.Code
	res.Body = rec.Body.Bytes()
	res.Header = rec.Header()
	return res
}

// GQLResponse is a decoded single response.
type GQLResponse struct {
	Data    map[string]any `json:"data"`
	Errors  []any          `json:"errors"`
	HasData bool           `json:"-"`
	Raw     map[string]any `json:"-"`
}

// DecodeSingle decodes a single-object response body.
func DecodeSingle(body []byte) (*GQLResponse, error) {
	var raw map[string]any
	dec := json.NewDecoder(bytes.NewReader(body))
	if err := dec.Decode(&raw); err != nil {
		return nil, err
	}
	if raw == nil {
		return nil, fmt.Errorf("response is JSON null")
	}
	return fromRaw(raw)
}

func fromRaw(raw map[string]any) (*GQLResponse, error) {
	out := &GQLResponse{Raw: raw}
	if d, ok := raw["data"]; ok {
		out.HasData = true
		if d != nil {
			m, ok := d.(map[string]any)
			if !ok {
				return nil, fmt.Errorf("data is not an object")
			}
			out.Data = m
		}
	}
	if e, ok := raw["errors"]; ok && e != nil {
		l, ok := e.([]any)
		if !ok {
			return nil, fmt.Errorf("errors is not a list")
		}
		out.Errors = l
	}
	return out, nil
}

// DecodeBatch decodes an array response body.
func DecodeBatch(body []byte) ([]*GQLResponse, error) {
	var raw []map[string]any
	if err := json.Unmarshal(body, &raw); err != nil {
		return nil, err
	}
	out := make([]*GQLResponse, len(raw))
	for i, r := range raw {
		if r == nil {
			return nil, fmt.Errorf("element %d is null", i)
		}
		g, err := fromRaw(r)
		if err != nil {
			return nil, fmt.Errorf("element %d: %v", i, err)
		}
		out[i] = g
	}
	return out, nil
}

// Body renders an operation as a single-request JSON body.
func Body(op *gen.Op) []byte {
	m := map[string]any{"query": op.Query}
	if op.Variables != nil {
		m["variables"] = op.Variables
	}
	if op.OperationName != "" {
		m["operationName"] = op.OperationName
	}
	b, _ := json.Marshal(m)
	return b
}

// Query sends one operation as application/json.
func (r *Rig) Query(op *gen.Op) *HTTPResult { return r.Do("application/json", Body(op)) }
