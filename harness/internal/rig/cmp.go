package rig

import (
	"encoding/json"
	"fmt"
	"reflect"
	"sort"
)

// Roundtrip passes v through JSON so that numbers are float64 etc.
func Roundtrip(v any) any {
	b, err := json.Marshal(v)
	if err != nil {
		return v
	}
	var out any
	if err := json.Unmarshal(b, &out); err != nil {
		return v
	}
	return out
}

func isEmptyShape(v any) bool {
	switch x := v.(type) {
	case map[string]any:
		return len(x) == 0
	case []any:
		if len(x) == 0 {
			return false
		}
		for _, e := range x {
			m, ok := e.(map[string]any)
			if !ok || len(m) != 0 {
				return false
			}
		}
		return true
	}
	return false
}

// Prune applies the one tolerated difference of C01: keys whose *reference*
// value is an empty object (or a non-empty list of empty objects) after
// pruning are removed from both sides, provided the other side either lacks
// the key or carries the same empty shape.  Returns pruned copies.
func Prune(ref, got any) (any, any) {
	switch r := ref.(type) {
	case map[string]any:
		gm, gok := got.(map[string]any)
		ro := make(map[string]any, len(r))
		var go_ map[string]any
		if gok {
			go_ = make(map[string]any, len(gm))
			for k, v := range gm {
				go_[k] = v
			}
		}
		for k, rv := range r {
			var gv any
			has := false
			if gok {
				gv, has = gm[k]
			}
			r2, g2 := Prune(rv, gv)
			if isEmptyShape(r2) {
				if !has {
					continue // pruned on both sides
				}
				if reflect.DeepEqual(r2, g2) {
					delete(go_, k)
					continue
				}
				// the gateway kept something else there: leave both for the diff
			}
			ro[k] = r2
			if has {
				go_[k] = g2
			}
		}
		if gok {
			return ro, go_
		}
		return ro, got
	case []any:
		gl, gok := got.([]any)
		ro := make([]any, len(r))
		var go_ []any
		if gok {
			go_ = append([]any{}, gl...)
		}
		for i := range r {
			var gv any
			if gok && i < len(gl) {
				gv = gl[i]
			}
			r2, g2 := Prune(r[i], gv)
			ro[i] = r2
			if gok && i < len(gl) {
				go_[i] = g2
			}
		}
		if gok {
			return ro, go_
		}
		return ro, got
	}
	return ref, got
}

// Diff describes the first difference between ref and got.
type Diff struct {
	Path string `json:"path"`
	Kind string `json:"kind"` // missing-key, extra-key, value, type, list-length, null-vs-value, value-vs-null
	Ref  any    `json:"ref,omitempty"`
	Got  any    `json:"got,omitempty"`
}

func (d *Diff) String() string {
	r, _ := json.Marshal(d.Ref)
	g, _ := json.Marshal(d.Got)
	if len(r) > 200 {
		r = append(r[:200], "..."...)
	}
	if len(g) > 200 {
		g = append(g[:200], "..."...)
	}
	return fmt.Sprintf("%s at %s: ref=%s got=%s", d.Kind, d.Path, r, g)
}

// FirstDiff compares JSON-like values; object key order ignored, list order significant.
func FirstDiff(ref, got any, path string) *Diff {
	if ref == nil && got == nil {
		return nil
	}
	if ref == nil {
		return &Diff{path, "null-vs-value", ref, got}
	}
	if got == nil {
		return &Diff{path, "value-vs-null", ref, got}
	}
	switch r := ref.(type) {
	case map[string]any:
		g, ok := got.(map[string]any)
		if !ok {
			return &Diff{path, "type", ref, got}
		}
		keys := make([]string, 0, len(r))
		for k := range r {
			keys = append(keys, k)
		}
		sort.Strings(keys)
		for _, k := range keys {
			gv, has := g[k]
			if !has {
				return &Diff{path + "." + k, "missing-key", r[k], nil}
			}
			if d := FirstDiff(r[k], gv, path+"."+k); d != nil {
				return d
			}
		}
		gkeys := make([]string, 0, len(g))
		for k := range g {
			gkeys = append(gkeys, k)
		}
		sort.Strings(gkeys)
		for _, k := range gkeys {
			if _, has := r[k]; !has {
				return &Diff{path + "." + k, "extra-key", nil, g[k]}
			}
		}
		return nil
	case []any:
		g, ok := got.([]any)
		if !ok {
			return &Diff{path, "type", ref, got}
		}
		if len(r) != len(g) {
			return &Diff{path, "list-length", len(r), len(g)}
		}
		for i := range r {
			if d := FirstDiff(r[i], g[i], fmt.Sprintf("%s[%d]", path, i)); d != nil {
				return d
			}
		}
		return nil
	}
	if !reflect.DeepEqual(ref, got) {
		if reflect.TypeOf(ref) != reflect.TypeOf(got) {
			return &Diff{path, "type", ref, got}
		}
		return &Diff{path, "value", ref, got}
	}
	return nil
}

// Leaves collects every scalar leaf (JSON-encoded) of v.
func Leaves(v any, out map[string]int) {
	switch x := v.(type) {
	case map[string]any:
		for _, e := range x {
			Leaves(e, out)
		}
	case []any:
		for _, e := range x {
			Leaves(e, out)
		}
	case nil:
	default:
		b, _ := json.Marshal(x)
		out[string(b)]++
	}
}
