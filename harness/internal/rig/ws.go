package rig

import (
	"context"
	"encoding/json"
	"fmt"
	"net"
	"net/http"
	"net/http/httptest"
	"strings"
	"sync"
	"time"
	"unicode/utf8"

	"verif/harness/internal/fake"

	"github.com/gobwas/ws"
)

// EnableWS starts a loopback websocket upstream for every service that owns
// Subscription fields and re-homes that service at the upstream's address.
// Must be called before StartGateway.
func (r *Rig) EnableWS() error {
	for i, s := range r.Services {
		if s.Schema.Subscription == nil {
			continue
		}
		up, err := fake.StartWS(s)
		if err != nil {
			return err
		}
		fake.Global.Unregister(s)
		s.Host = up.Addr
		s.URL = "http://" + up.Addr + "/graphql"
		fake.Global.Register(s)
		r.URLs[i] = s.URL
		r.Upstreams = append(r.Upstreams, up)
	}
	return nil
}

// NewWS builds services (+ websocket upstreams) and a gateway behind a real HTTP server.
func NewWS(spec UniverseSpec, cfg Config) (*Rig, error) {
	r, err := NewServices(spec)
	if err != nil {
		return nil, err
	}
	r.Cfg = cfg
	if err := r.EnableWS(); err != nil {
		return r, err
	}
	if err := r.StartGateway(r.URLs); err != nil {
		return r, err
	}
	if cfg.WriteGapUs > 0 {
		r.Server = httptest.NewUnstartedServer(http.HandlerFunc(r.GW.Handler))
		r.Server.Listener = gapListener{r.Server.Listener, time.Duration(cfg.WriteGapUs) * time.Microsecond}
		r.Server.Start()
		return r, nil
	}
	r.Server = httptest.NewServer(http.HandlerFunc(r.GW.Handler))
	return r, nil
}

// gapListener hands out connections that pause after every short write.  gobwas/ws writes a
// frame as header then payload; the pause widens the window between the two without altering
// a byte, so a writer that does not take the gateway's per-connection lock lands inside a frame.
type gapListener struct {
	net.Listener
	gap time.Duration
}

func (l gapListener) Accept() (net.Conn, error) {
	c, err := l.Listener.Accept()
	if err != nil {
		return nil, err
	}
	return &gapConn{Conn: c, gap: l.gap}, nil
}

type gapConn struct {
	net.Conn
	gap time.Duration
}

func (c *gapConn) Write(b []byte) (int, error) {
	n, err := c.Conn.Write(b)
	if err == nil && len(b) <= 10 {
		time.Sleep(c.gap)
	}
	return n, err
}

// CloseWS shuts the HTTP server and upstreams down.
func (r *Rig) CloseWS() {
	if r.Server != nil {
		r.Server.CloseClientConnections()
		r.Server.Close()
	}
	for _, u := range r.Upstreams {
		u.Close()
	}
	r.Close()
}

// Frame is one frame read by the strict client parser.
type Frame struct {
	Seq     int
	Raw     string
	Type    string
	ID      string
	Payload map[string]any
	ErrList []any
	Problem string // non-empty: the frame violates RFC 6455 header sanity or is not a complete JSON message of a known type
}

// WSClient is a strict graphql-ws client.
type WSClient struct {
	Conn      net.Conn
	mu        sync.Mutex
	frames    []Frame
	closed    bool
	closing   bool
	closeInfo string
	done      chan struct{}
	wmu       sync.Mutex
}

var knownServerTypes = map[string]bool{"connection_ack": true, "ka": true, "data": true, "error": true, "complete": true, "connection_error": true}

// DialWS connects to the gateway's websocket endpoint.
func DialWS(serverURL string) (*WSClient, error) {
	u := "ws" + strings.TrimPrefix(serverURL, "http") + "/graphql"
	d := ws.Dialer{Timeout: 5 * time.Second, Protocols: []string{"graphql-ws"}}
	conn, _, _, err := d.Dial(context.Background(), u)
	if err != nil {
		return nil, err
	}
	c := &WSClient{Conn: conn, done: make(chan struct{})}
	go c.readLoop()
	return c, nil
}

func (c *WSClient) add(f Frame) {
	c.mu.Lock()
	f.Seq = len(c.frames)
	c.frames = append(c.frames, f)
	c.mu.Unlock()
}

func (c *WSClient) readLoop() {
	defer close(c.done)
	for {
		h, err := ws.ReadHeader(c.Conn)
		if err != nil {
			c.mu.Lock()
			c.closed = true
			c.closeInfo = err.Error()
			c.mu.Unlock()
			return
		}
		problem := ""
		if h.Rsv != 0 {
			problem = fmt.Sprintf("reserved bits set (rsv=%d)", h.Rsv)
		}
		if h.Masked {
			problem = "server frame is masked"
		}
		if !h.Fin {
			problem = "fragmented frame"
		}
		if h.Length > 64<<20 {
			c.add(Frame{Problem: fmt.Sprintf("absurd frame length %d (header garbage)", h.Length)})
			c.mu.Lock()
			c.closed = true
			c.closeInfo = "absurd length"
			c.mu.Unlock()
			return
		}
		payload := make([]byte, h.Length)
		if _, err := readFull(c.Conn, payload); err != nil {
			c.mu.Lock()
			local := c.closing
			c.mu.Unlock()
			if !local {
				c.add(Frame{Problem: "truncated frame: " + err.Error()})
			}
			c.mu.Lock()
			c.closed = true
			c.closeInfo = err.Error()
			c.mu.Unlock()
			return
		}
		switch h.OpCode {
		case ws.OpClose:
			// RFC 6455 5.5 / 7.4: a control frame carries at most 125 bytes; a close body is empty or a status code
			// the protocol allows on the wire followed by a reason in valid UTF-8
			if p := closeFrameProblem(payload); p != "" {
				c.add(Frame{Raw: fmt.Sprintf("%q", payload), Problem: "close frame: " + p})
			}
			c.mu.Lock()
			c.closed = true
			c.closeInfo = "close frame"
			c.mu.Unlock()
			return
		case ws.OpPing, ws.OpPong:
			continue
		case ws.OpText:
		default:
			c.add(Frame{Raw: string(payload), Problem: fmt.Sprintf("unexpected opcode %d", h.OpCode)})
			continue
		}
		f := Frame{Raw: string(payload), Problem: problem}
		var m struct {
			ID      string          `json:"id"`
			Type    string          `json:"type"`
			Payload json.RawMessage `json:"payload"`
		}
		if err := json.Unmarshal(payload, &m); err != nil {
			f.Problem = "payload is not a complete JSON message: " + err.Error()
		} else {
			f.Type, f.ID = m.Type, m.ID
			if !knownServerTypes[m.Type] {
				f.Problem = "unknown message type " + m.Type
			}
			if len(m.Payload) > 0 {
				if json.Unmarshal(m.Payload, &f.Payload) != nil {
					json.Unmarshal(m.Payload, &f.ErrList)
				}
			}
		}
		c.add(f)
	}
}

func readFull(conn net.Conn, b []byte) (int, error) {
	n := 0
	for n < len(b) {
		m, err := conn.Read(b[n:])
		n += m
		if err != nil {
			return n, err
		}
	}
	return n, nil
}

// Send writes one JSON message as a masked client text frame.
func (c *WSClient) Send(v any) error {
	b, _ := json.Marshal(v)
	return c.SendRaw(b)
}

func (c *WSClient) SendRaw(b []byte) error {
	c.wmu.Lock()
	defer c.wmu.Unlock()
	f := ws.NewTextFrame(b)
	f = ws.MaskFrameInPlace(f)
	return ws.WriteFrame(c.Conn, f)
}

// SendPing writes a ping frame (the server answers with a pong, which the strict reader skips).
func (c *WSClient) SendPing(payload []byte) error {
	c.wmu.Lock()
	defer c.wmu.Unlock()
	f := ws.MaskFrameInPlace(ws.NewPingFrame(payload))
	return ws.WriteFrame(c.Conn, f)
}

// SendPartialFrame writes only the beginning of a frame (header + part of the payload).
func (c *WSClient) SendPartialFrame(b []byte) error {
	c.wmu.Lock()
	defer c.wmu.Unlock()
	f := ws.NewTextFrame(b)
	f = ws.MaskFrameInPlace(f)
	if err := ws.WriteHeader(c.Conn, f.Header); err != nil {
		return err
	}
	_, err := c.Conn.Write(f.Payload[:len(f.Payload)/2])
	return err
}

// Frames returns a copy of the frames read so far.
func (c *WSClient) Frames() []Frame {
	c.mu.Lock()
	defer c.mu.Unlock()
	return append([]Frame{}, c.frames...)
}

func closeFrameProblem(payload []byte) string {
	switch {
	case len(payload) == 0:
		return ""
	case len(payload) > 125:
		return fmt.Sprintf("control frame with %d bytes of payload", len(payload))
	case len(payload) == 1:
		return "body of one byte (no status code)"
	}
	code := int(payload[0])<<8 | int(payload[1])
	ok := (code >= 1000 && code <= 1003) || (code >= 1007 && code <= 1011) || (code >= 3000 && code <= 4999)
	if !ok {
		return fmt.Sprintf("status code %d may not appear in a close frame", code)
	}
	if !utf8.Valid(payload[2:]) {
		return fmt.Sprintf("reason is not valid UTF-8 (%d bytes, cut inside a character?)", len(payload)-2)
	}
	return ""
}

// Closed reports whether the server side closed the connection.
func (c *WSClient) Closed() (bool, string) {
	c.mu.Lock()
	defer c.mu.Unlock()
	return c.closed, c.closeInfo
}

// Close closes the TCP connection abruptly.
func (c *WSClient) Close() {
	c.mu.Lock()
	c.closing = true
	c.mu.Unlock()
	c.Conn.Close()
}

// WaitClosed waits until the read loop ended.
func (c *WSClient) WaitClosed(d time.Duration) bool {
	select {
	case <-c.done:
		return true
	case <-time.After(d):
		return false
	}
}
