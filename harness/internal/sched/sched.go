// Package sched implements the verifhook callback: schedule perturbation
// (jitter), directed ordering constraints, and trace recording.
package sched

import (
	"crypto/sha1"
	"encoding/hex"
	"fmt"
	"runtime"
	"strings"
	"sync"
	"sync/atomic"
	"time"

	"github.com/buildbuildio/pebbles/verifhook"
)

// Event is one hook occurrence.
type Event struct {
	Seq   int64
	Point string
	Scope string // pointer identity of the scope
	G     uint64 // goroutine id
}

// Constraint: goroutines reaching point Wait (within any scope) block until
// some goroutine has passed point Until (or the timeout expires).
type Constraint struct {
	Wait  string
	Until string
}

// Monitor is an online observer of hook events (called under the scheduler's lock).
type Monitor func(e Event)

type state struct {
	mu        sync.Mutex
	seed      uint64
	ctr       uint64
	jitter    bool
	slow      map[string]int // per role (point prefix) slowness class 0..3
	record    bool
	events    []Event
	maxEvents int
	cons      []Constraint
	passed    map[string]chan struct{}
	unsat     int64
	sat       int64
	monitor   Monitor
	timeout   time.Duration
}

var cur atomic.Pointer[state]

// Options configure Install.
type Options struct {
	Seed        uint64
	Jitter      bool
	Record      bool
	MaxEvents   int
	Constraints []Constraint
	Monitor     Monitor
	Timeout     time.Duration // for directed constraints
}

// Install activates the callback with the given options (replacing any previous one).
func Install(o Options) {
	s := &state{seed: o.Seed, jitter: o.Jitter, record: o.Record, maxEvents: o.MaxEvents, cons: o.Constraints, monitor: o.Monitor,
		slow: map[string]int{}, passed: map[string]chan struct{}{}, timeout: o.Timeout}
	if s.maxEvents == 0 {
		s.maxEvents = 200000
	}
	if s.timeout == 0 {
		s.timeout = 300 * time.Millisecond
	}
	for _, c := range o.Constraints {
		if _, ok := s.passed[c.Until]; !ok {
			s.passed[c.Until] = make(chan struct{})
		}
	}
	cur.Store(s)
	verifhook.Set(hook)
}

// Uninstall removes the callback.
func Uninstall() {
	verifhook.Set(nil)
	cur.Store(nil)
}

func splitmix(x uint64) uint64 {
	x += 0x9E3779B97F4A7C15
	x = (x ^ (x >> 30)) * 0xBF58476D1CE4E5B9
	x = (x ^ (x >> 27)) * 0x94D049BB133111EB
	return x ^ (x >> 31)
}

func goid() uint64 {
	var buf [64]byte
	n := runtime.Stack(buf[:], false)
	// "goroutine 123 ["
	var id uint64
	for _, c := range buf[10:n] {
		if c < '0' || c > '9' {
			break
		}
		id = id*10 + uint64(c-'0')
	}
	return id
}

func role(point string) string {
	i := strings.LastIndex(point, ".")
	if i < 0 {
		return point
	}
	// amr.worker.send.res -> amr.worker ; sub.close.enter -> sub.close
	parts := strings.Split(point, ".")
	if len(parts) >= 2 {
		return parts[0] + "." + parts[1]
	}
	return point
}

func hook(point string, scope any) {
	s := cur.Load()
	if s == nil {
		return
	}
	n := atomic.AddUint64(&s.ctr, 1)
	if s.record || s.monitor != nil {
		e := Event{Seq: int64(n), Point: point, Scope: fmt.Sprintf("%p", scope), G: goid()}
		s.mu.Lock()
		if s.record && len(s.events) < s.maxEvents {
			s.events = append(s.events, e)
		}
		if s.monitor != nil {
			s.monitor(e)
		}
		s.mu.Unlock()
	}
	// directed constraints: first wait, then mark passage
	for _, c := range s.cons {
		if c.Wait == point {
			ch := s.passed[c.Until]
			select {
			case <-ch:
				atomic.AddInt64(&s.sat, 1)
			case <-time.After(s.timeout):
				atomic.AddInt64(&s.unsat, 1)
			}
		}
	}
	if ch, ok := s.passed[point]; ok {
		s.mu.Lock()
		select {
		case <-ch:
		default:
			close(ch)
		}
		s.mu.Unlock()
	}
	if !s.jitter {
		return
	}
	h := splitmix(s.seed ^ n*0x9E37 ^ hashStr(point))
	// role slowness class chosen once per (seed, role)
	cls := int(splitmix(s.seed^hashStr(role(point))) % 4)
	th := []uint64{92, 80, 60, 35}[cls] // percent "do nothing"
	r := h % 100
	switch {
	case r < th:
	case r < th+(100-th)*6/10:
		runtime.Gosched()
	case r < th+(100-th)*9/10:
		for i := 0; i < 3+int(h>>8%5); i++ {
			runtime.Gosched()
		}
	default:
		time.Sleep(time.Duration(20+(h>>16)%400) * time.Microsecond)
	}
}

func hashStr(s string) uint64 {
	var h uint64 = 1469598103934665603
	for i := 0; i < len(s); i++ {
		h ^= uint64(s[i])
		h *= 1099511628211
	}
	return h
}

// Stats returns (constraints satisfied, unsatisfied).
func Stats() (int64, int64) {
	s := cur.Load()
	if s == nil {
		return 0, 0
	}
	return atomic.LoadInt64(&s.sat), atomic.LoadInt64(&s.unsat)
}

// Events returns a copy of the recorded events.
func Events() []Event {
	s := cur.Load()
	if s == nil {
		return nil
	}
	s.mu.Lock()
	defer s.mu.Unlock()
	return append([]Event{}, s.events...)
}

// Reset clears recorded events.
func Reset() {
	s := cur.Load()
	if s == nil {
		return
	}
	s.mu.Lock()
	s.events = nil
	s.mu.Unlock()
}

// TraceHashes groups recorded events by scope and returns one hash per scope
// of the sequence of (role-local goroutine index, point).
func TraceHashes(evs []Event) []string {
	by := map[string][]Event{}
	var order []string
	for _, e := range evs {
		if _, ok := by[e.Scope]; !ok {
			order = append(order, e.Scope)
		}
		by[e.Scope] = append(by[e.Scope], e)
	}
	var out []string
	for _, sc := range order {
		gidx := map[uint64]int{}
		h := sha1.New()
		for _, e := range by[sc] {
			if _, ok := gidx[e.G]; !ok {
				gidx[e.G] = len(gidx)
			}
			fmt.Fprintf(h, "%d:%s;", gidx[e.G], e.Point)
		}
		out = append(out, hex.EncodeToString(h.Sum(nil)[:6]))
	}
	return out
}
