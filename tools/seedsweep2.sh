#!/bin/bash
# usage: seedsweep2.sh <streams> [seed ids...]   the kill matrix without touching /repo's working tree: every kept seeded change is
# applied to a scratch worktree of /repo's HEAD (VERIF_REPO) and the checks listed in its meta.json (caught_by) are run at
# quick tier; <streams> worktrees work in parallel.  One line per seed on stdout.  (tools/seedsweep.sh does the same on /repo itself.)
export GOFLAGS=-mod=mod GOPROXY=off GOSUMDB=off GOTOOLCHAIN=local
n=${1:-3}; shift
cd /verif
if [ $# -gt 0 ]; then ids="$@"; else ids=$(ls seeded | grep '^C' ); fi
i=0
for id in $ids; do echo $id; done > /tmp/seedsweep2-all.txt
for s in $(seq 0 $((n-1))); do
  (
    wt=/tmp/ss2-$$-$s
    git -C /repo worktree add -q $wt HEAD || exit 2
    tag=$(echo "$wt" | md5sum | cut -c1-8)
    awk -v n=$n -v s=$s 'NR % n == s' /tmp/seedsweep2-all.txt | while read id; do
      d=seeded/$id
      checks=$(python3 -c "import json;m=json.load(open('$d/meta.json'));print(' '.join(m['caught_by']))")
      nc=$(python3 -c "import json;m=json.load(open('$d/meta.json'));print(1 if m.get('not_caught') else 0)")
      if [ "$nc" = 1 ]; then echo "$id documented-miss"; continue; fi
      if ! git -C $wt apply "/verif/$d/patch.diff" 2>/dev/null; then echo "$id PATCH-DOES-NOT-APPLY"; continue; fi
      line="$id"
      for c in $checks; do
        VERIF_REPO=$wt ./run.sh $c quick > /tmp/ss2-$id-$c.log 2>&1; rc=$?
        v=$(grep -c '^VIOLATION' /tmp/ss2-$id-$c.log)
        line="$line | $c exit=$rc violations=$v"
        [ $rc = 1 ] && break
      done
      echo "$line"
      git -C $wt checkout -q -- . ; git -C $wt clean -fdq
    done
    rm -rf /verif/.work/alt-$tag
    git -C /repo worktree remove --force $wt
  ) &
done
wait
