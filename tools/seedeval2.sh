#!/bin/bash
# usage: seedeval2.sh <srcdir> <check ids...>   like seedeval.sh, but on a scratch worktree of /repo (VERIF_REPO),
# so it can run while something else uses /repo's working tree.  The final word is tools/seedsweep.sh (git -C /repo apply).
export GOFLAGS=-mod=mod GOPROXY=off GOSUMDB=off GOTOOLCHAIN=local
src=$1; shift
wt=/tmp/se-$$
git -C /repo worktree add -q $wt HEAD || exit 2
meta=$src/meta.json
demo=$(python3 -c "import json;print(json.load(open('$meta'))['demo_file'])")
place=$(python3 -c "import json;print(json.load(open('$meta'))['demo_place'])")
cmd=$(python3 -c "import json,re;print(re.sub(r'/tmp/wt[2-9]?-C[0-9]+','.',json.load(open('$meta'))['demo_cmd']))")
cleanup() { tag=$(echo "$wt" | md5sum | cut -c1-8); rm -rf /verif/.work/alt-$tag; git -C /repo worktree remove --force $wt; }
trap cleanup EXIT
cd $wt
cp "$src/$demo" "$wt/$place/$demo"
echo "== demo without patch (expect PASS)"; (eval "$cmd" >/tmp/seed-demo0-${SEEDLOG_TAG:-$$}.log 2>&1; echo "exit $?")
git apply "$src/patch.diff" 2>/dev/null || patch -p1 -s --no-backup-if-mismatch --fuzz=3 < "$src/patch.diff" || { echo "PATCH DOES NOT APPLY"; exit 3; }
echo "== demo with patch (expect FAIL)"; (eval "$cmd" >/tmp/seed-demo1-${SEEDLOG_TAG:-$$}.log 2>&1; echo "exit $?")
rm -f "$wt/$place/$demo"
echo "== suite with patch (expect ok)"; go test -vet=off -count=1 ./... 2>&1 | grep -v '^ok' | grep -v 'no test files' | head -5
for c in "$@"; do
  echo "== check $c quick with patch"
  (cd /verif && VERIF_REPO=$wt ./run.sh $c quick > /tmp/seed-check-$c-${SEEDLOG_TAG:-$$}.log 2>&1; echo "exit $?"; grep -c '^VIOLATION' /tmp/seed-check-$c-${SEEDLOG_TAG:-$$}.log; grep '^  symptom' /tmp/seed-check-$c-${SEEDLOG_TAG:-$$}.log | sort | uniq -c | sort -rn | head -5; tail -1 /tmp/seed-check-$c-${SEEDLOG_TAG:-$$}.log | cut -c1-300)
done
