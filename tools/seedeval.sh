#!/bin/bash
# usage: seedeval.sh <srcdir> <check ids...>   e.g. seedeval.sh /tmp/seeded-out/C05/1 C05
# Applies the seeded patch to /repo, verifies suite+demo, runs the given checks, reverts.
export GOFLAGS=-mod=mod GOPROXY=off GOSUMDB=off GOTOOLCHAIN=local
src=$1; shift
cd /repo || exit 2
if [ -n "$(git status --porcelain)" ]; then echo "repo dirty"; exit 2; fi
meta=$src/meta.json
demo=$(python3 -c "import json;print(json.load(open('$meta'))['demo_file'])")
place=$(python3 -c "import json;print(json.load(open('$meta'))['demo_place'])")
cmd=$(python3 -c "import json,re;print(re.sub(r'/tmp/wt[2-9]?-C[0-9]+','/repo',json.load(open('$meta'))['demo_cmd']))")
cleanup() { cd /repo; git checkout -q -- .; rm -f "/repo/$place/$demo"; git clean -fdq -e verifhook; }
trap cleanup EXIT
cp "$src/$demo" "/repo/$place/$demo"
echo "== demo without patch (expect PASS)"; (cd /repo; eval "$cmd" >/tmp/seed-demo0.log 2>&1; echo "exit $?")
git apply "$src/patch.diff" 2>/dev/null || patch -p1 -s --no-backup-if-mismatch --fuzz=3 < "$src/patch.diff" || { echo "PATCH DOES NOT APPLY"; exit 3; }
echo "== demo with patch (expect FAIL)"; (cd /repo; eval "$cmd" >/tmp/seed-demo1.log 2>&1; echo "exit $?")
rm -f "/repo/$place/$demo"
echo "== suite with patch (expect ok)"; go test -vet=off -count=1 ./... 2>&1 | grep -v '^ok' | grep -v 'no test files' | head -5
for c in "$@"; do
  echo "== check $c quick with patch"
  (cd /verif && ./run.sh $c quick > /tmp/seed-check-$c.log 2>&1; echo "exit $?"; grep -c '^VIOLATION' /tmp/seed-check-$c.log; grep '^  symptom' /tmp/seed-check-$c.log | sort | uniq -c | sort -rn | head -5; tail -1 /tmp/seed-check-$c.log | cut -c1-300)
done
