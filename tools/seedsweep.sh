#!/bin/bash
# Re-applies every kept seeded change to /repo, runs the checks listed in its meta.json (caught_by), prints a kill matrix line each.
cd /verif
for d in seeded/*/; do
  id=$(basename $d)
  checks=$(python3 -c "import json;print(' '.join(json.load(open('$d/meta.json'))['caught_by']))")
  cd /repo
  if [ -n "$(git status --porcelain)" ]; then echo "repo dirty"; exit 2; fi
  if ! git apply "/verif/$d/patch.diff" 2>/dev/null; then echo "$id PATCH-DOES-NOT-APPLY"; cd /verif; continue; fi
  cd /verif
  line="$id"
  for c in $checks; do
    ./run.sh $c quick > /tmp/sweep-$id-$c.log 2>&1; rc=$?
    n=$(grep -c '^VIOLATION' /tmp/sweep-$id-$c.log)
    line="$line | $c exit=$rc violations=$n"
  done
  echo "$line"
  git -C /repo checkout -q -- . ; git -C /repo clean -fdq -e verifhook
done
