#!/usr/bin/env python3
# Regenerates /verif/MANIFEST.json from the table below.
import json
props=[json.loads(l) for l in open('/verif/properties.jsonl')]
C={}
def chk(pid, cat, technique, text, note, design):
    C[pid]={"property_id":pid,"quick_cmd":"./run.sh %s quick"%pid,"thorough_cmd":"./run.sh %s thorough"%pid,
      "evidence_file":"/verif/evidence/%s.json"%pid,"replay_cmd_template":"./run.sh replay {path}","engine":"vcheck",
      "level_claimed":{"category":cat,"text":text,"design_ref":design},"level_note":note,"technique":technique}

chk("C01","exploration","runtime differential monitor: real gateway + evaluating fake services vs reference executor, under the race detector",
 "Held on the generated (universe x config x operation) executions reported in the evidence; every HTTP answer of the real gateway is compared with a reference GraphQL executor over the union of the same procedural data. Known genuine defects are listed in known_findings.json and matched by input predicate + symptom.",
 "Trusted: harness reference engine (selftest), gqlparser validator, procedural data function shared by services and reference.","DESIGN.md §5 C01")
chk("C02","exploration","runtime monitors on hooked state: validation of every planned and every received sub-request against the receiving service's own SDL + coverage/helper/variable-value oracles",
 "Held on the executions reported: each sub-request (plan level and as received on the wire) validates against its service's SDL, variables coerce and carry client values, client coordinates are covered at declaring services, helpers are only id/__typename and registered for scrubbing.",
 "Trusted: gqlparser validator; coordinate flattening in harness/internal/props/c02.go.","DESIGN.md §5 C02")

chk("C03","exploration","runtime monitor over the merger's real output: schema fact-set equality under every permutation of the service list, plus repeated Merge over the same parsed inputs",
 "Held on every (universe x permutation x merger) explored: the merged schema's fact set equals the union of the services' fact sets, re-prints/re-loads, and service-valid operations stay valid.",
 "Trusted: fact extraction over gqlparser ast.Schema; SDL loading equals introspector output (C15 covers the introspector).","DESIGN.md §5 C03")
chk("C04","exploration","runtime invariant check on hooked state (MergeResult.TypeURLMap captured from the real merger) against the service SDLs",
 "Held on every (universe x permutation x merger) explored: every routable field has a route to a declaring service, node flags match the merged schema, routed services = contributing services.",
 "Trusted: service SDLs as ground truth for 'declares'.","DESIGN.md §5 C04")
chk("C05","fault_enumeration","fault enumeration: every conflict-edit kind x service pair x permutation injected into mergeable bases; oracle on Merge's error value under recover",
 "For each sampled base the (edit kind x pair x permutation) space is enumerated completely: conflicts must be rejected with an error in every order, bases accepted with identical facts and Node routes in every order.",
 "Trusted: each edit introduces exactly one conflict (fresh names); gqlparser loads each edited service SDL.","DESIGN.md §5 C05")
chk("C06","fault_enumeration","offline exactly-once checker over the recorded downstream event log, with single-fault injection addressed by call index",
 "Held on the executions explored: each mutation root key reached its owner in exactly one mutation request per client request, also with a downstream fault at each sampled call index, with batching limits 1/2/3000, repeated requests through the plan cache, concurrent copies, and transport faults on kept-alive connections of a real net/http transport.",
 "Trusted: fake-service event log (append under mutex before answering); log segmentation by client call.","DESIGN.md §5 C06")
chk("C12","exploration","offline call-count checker over the recorded downstream event log vs plan shape; differential data check",
 "Held on the executions explored: per service, HTTP calls carrying fewer requests than the batch limit (C11's chunking) <= plan levels for list lengths 1..300 with heavy entity duplication (answers up to 40 000 objects); no duplicate {id} lookups inside one batch; answers equal the reference.",
 "Trusted: event log; plan obtained from SequentialPlanner.Plan on the same context.","DESIGN.md §5 C12")

chk("C07","exploration","hostile-input runtime monitoring in isolated child processes: panic/process-death monitor, response-shape and status oracles against an independent decoder, canary liveness probe",
 "Held on the hostile requests explored (byte-level, JSON shapes, multipart layouts, corner-case operations): handler returned, no panic or process death, well-formed JSON with data/errors, 422 iff undecodable and 200 iff decodable per the independent decoder, invalid operations rejected with data:null, canary answered correctly afterwards.",
 "Trusted: independent decoder in c07.go; ambiguous inputs are only checked for well-formedness and liveness.","DESIGN.md §5 C07")
chk("C08","exploration","differential runtime monitor (batch element vs the same operation alone) under gated completion orders and hook jitter, with the Go race detector as a verdict",
 "Held on the batches explored: N results in order, each equal to the single-request answer (errors as multisets), the multiset of sub-requests received by the services equal to that of the single runs, for mixes of valid/invalid/failing/slow operations under permuted completion orders; no data race with a pebbles frame.",
 "Trusted: deterministic fake services with content-keyed faults and gates.","DESIGN.md §5 C08")
chk("C09","fault_enumeration","single-fault enumeration (call index x fault kind x position; transport faults also over a real net/http transport with fresh and kept-alive connections) with crash/shape/provenance/canary/goroutine/answer-body monitors over recorded downstream answers",
 "For each sampled operation the single-fault space (<= 6 calls x all fault kinds x first/last/all) is enumerated completely, plus sampled two-fault sequences and batch siblings: no panic/death/hang, failure signals reported, every data leaf came from a service, other operations and later requests unaffected.",
 "Trusted: fake transport's fault injector and its log of bodies actually sent.","DESIGN.md §5 C09")
chk("C10","exploration","offline checker over the downstream event log (zero events for invalid operations) and error-fidelity oracle on injected GraphQL error payloads",
 "Held on the mutants and payloads explored: no invalid operation produced a downstream request and all were answered with errors + data:null; every injected downstream error arrived with message, extensions and path intact (multiset matching).",
 "Trusted: gqlparser validation against the captured merged schema to decide that a mutant is invalid.","DESIGN.md §5 C10")

chk("C11","fault_enumeration","exhaustive small-scope enumeration (N x m x completion order x failing chunk x kind) of the real MultiOpQueryer over a recording, gated RoundTripper; race detector as a verdict",
 "The (N, m, order, failing chunk, kind) space within the stated bounds is enumerated completely: N results in request order, each request in exactly one call, no call above m, an error and nil result when a call fails (as many errors as failed calls, also when every call fails), under every completion order of <= 4 chunks (sampled beyond); benign answer wordings (empty errors list, 207) and self-repeating request lists change nothing; every answer body is read or closed.",
 "Trusted: the gate (releases a call only when all chunk calls are pending); watchdog expiry only weakens ordering control.","DESIGN.md §5 C11")
chk("C13","exploration","repeat-and-compare runtime monitor: canonical plans over 30 plannings, responses and downstream multisets over repeated requests on one and on fresh gateways, under hook jitter and varied service delays; race detector as a verdict",
 "Held on the operations explored (full feature profile, plain and caching planner, with concurrently failing steps): identical canonical plans, identical data, equal error multisets, identical per-service sub-request multisets.",
 "Trusted: deterministic fake services.","DESIGN.md §5 C13")
chk("C20","exploration","direct stress of common.AsyncMapReduce under hook-driven schedule perturbation (jitter, forced completion orders, directed point pairs) with call counters, CAS overlap flag, post-return settle check, goroutine-leak monitor and the race detector",
 "Held on the calls explored: each item mapped once, each success reduced once and never concurrently, nothing happens after return, errors returned as injected, accumulator equals the fold, no goroutine left, no race.",
 "Trusted: hook points placed before each channel operation; the 'exhaustive on a model' half of the quantifier is outside this technique family (see DESIGN.md).","DESIGN.md §5 C20")

chk("C14","exploration","differential runtime monitor over request histories: caching gateway vs stateless twin gateway, sequential and 8-way concurrent issue with hook jitter; race detector as a verdict",
 "Held on the histories explored (colliding operation pools, ttl 0 / 1 ms straddled / 1 h, sequential and concurrent): every response of the caching gateway equals the plain gateway's answer to the same operation; no data race on shared cached plans.",
 "Trusted: the plain gateway is stateless (self-checked per pool entry; a non-deterministic plain answer makes the case inconclusive).","DESIGN.md §5 C14")

chk("C15","exploration","round-trip runtime monitor: generated SDL served by a spec-shaped introspection responder through the real introspector and queryer; fact-set equality and operation-validity agreement",
 "Held on the schemas explored (all type-system features listed in the rule): the reconstructed schema's fact set equals S's, operations are valid on both or on neither, no panic; schemas with references nested deeper than 7 wrappers are a listed known finding (rejected at start-up).",
 "Trusted: the harness's introspection responder (reference engine; self-checked by rebuilding its own answers) and fact extraction.","DESIGN.md §5 C15")

chk("C16","exploration","differential runtime monitor: gateway introspection answers vs the reference engine's spec-shaped introspection over the captured merged schema; rebuild through pebbles' own introspector; probes",
 "Held on the introspection operations explored (generated selections with aliases/fragments/variables/includeDeprecated, the standard queries, rebuild by 'another gateway', accept/reject probes): answers equal the reference (lists as multisets), the rebuilt schema's fact set equals the merged schema's.",
 "Trusted: reference engine's introspection; list order treated as insignificant.","DESIGN.md §5 C16")

chk("C19","exploration","round-trip runtime monitor over generated multipart layouts: parts re-parsed at the fake services + reference differential with content-derived upload markers; race detector as a verdict",
 "Held on the layouts explored (single/batched, placeholders at top-level/list/nested positions, files bound to one or several paths, one variable feeding fields of several services): every bound file arrived at the owning service under the same path with the same name and bytes (also a file containing the delimiter of the previous forwarded request, a 1.3 MiB file feeding two fields, a service behind a 307), no stray parts, responses equal the reference, GraphQL errors on the multipart sub-request reach the client, no data race.",
 "Trusted: harness multipart decoder at the services; marker substitution on both sides.","DESIGN.md §5 C19")

chk("C17","exploration","offline sequence checker over recorded client frames and upstream emit logs (unique marker + event number per event), payload differential against the reference; strict frame parser; race detector as a verdict",
 "Held on the scenarios explored (1-3 connections x 1-3 concurrent subscriptions, scripted upstreams with pauses / errors / complete / error frame): each subscription's data frames are exactly the emitted events in order with fully stitched payloads, nothing under a foreign id, upstream errors forwarded, all frames well formed, and per service at most (events forwarded x plan levels) batched calls.",
 "Trusted: loopback websocket upstream that validates start payloads; quiescence by bounded wait (inconclusive on watchdog).","DESIGN.md §5 C17")

chk("C18","exploration","stress + directed hook schedules over client/upstream action histories with process-liveness, strict frame parser, upstream-connection-closed, goroutine-leak monitors and the race detector",
 "Held on the histories explored (jitter schedules, both orders of every hook-point pair between Close / Listen / upstream reader / handler clean-up, and keep-alive ticks landing while events stream over a connection that pauses after every frame header): no panic or fatal error, all frames well formed, upstream connections closed after stop and after the connection ended, no subscription goroutine left after the settle bound, no data race.",
 "Liveness restated as bounded progress (3 s / 8 s after stimuli end). The model-checking half of the quantifier is outside this technique family.","DESIGN.md §5 C18")

claimed=set(C)
na=[{"property_id":p['id'],"reason":"check under construction in this round; not claimed yet"} for p in props if p['id'] not in claimed]
m={"version":1,"setup_cmd":"./run.sh build && ./run.sh selftest",
 "hooks":{"guard":"verif","enable":"go build -race -tags verif ./cmd/vcheck in /verif/harness (go.mod: replace github.com/buildbuildio/pebbles => /repo)",
   "baseline_off_cmd":"cd /repo && GOFLAGS=-mod=mod GOPROXY=off go test -vet=off -count=1 ./...","source_commits":["dda4c3c"],"add_only":True},
 "engines":[{"name":"vcheck","path":"/verif/harness","serves_properties":sorted(claimed),"kind_free_text":"Go harness (race-detector build) running the real pebbles packages from /repo against evaluating fake services; child-process isolation; monitors over HTTP responses, downstream event logs, hook traces"}],
 "checks":[C[k] for k in sorted(C)],
 "notes":"All checks rebuild the harness against /repo's working tree on every invocation (go build cache). Known genuine defects: /verif/known_findings.json with witnesses under /verif/known/.",
 "not_applicable":na}
json.dump(m,open('/verif/MANIFEST.json','w'),indent=1)
print("claimed",sorted(claimed))
