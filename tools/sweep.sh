#!/bin/bash
# usage: tools/sweep.sh <tier> <seed> [<seed>...]   runs every check once per seed, prints one summary line each
cd "$(dirname "$0")/.."
tier=$1; shift
mkdir -p .work
for seed in "$@"; do
  for p in C01 C02 C03 C04 C05 C06 C07 C08 C09 C10 C11 C12 C13 C14 C15 C16 C17 C18 C19 C20; do
    start=$(date +%s)
    VERIF_SEED=$seed ./run.sh $p $tier > .work/sweep-$p-$seed-$tier.log 2>&1; rc=$?
    end=$(date +%s)
    echo "seed=$seed $p rc=$rc wall=$((end-start))s $(tail -1 .work/sweep-$p-$seed-$tier.log | cut -c1-260)"
  done
done
