#!/bin/bash
# usage: revertfix.sh <commit> <prop> : reverts one fix on a scratch worktree, runs the property's quick check against it,
# keeps the first violation's replay file as regression witness known/fixed/<prop>-<commit>.json
set -u
c=$1; p=$2
wt=/tmp/rv-$c
cd /repo
git worktree remove --force $wt 2>/dev/null
git worktree add -q $wt HEAD || exit 2
cd $wt
if ! git revert -n $c >/dev/null 2>&1; then echo "$c $p REVERT-CONFLICT"; cd /repo; git worktree remove --force $wt; exit 0; fi
cd /verif
VERIF_REPO=$wt ./run.sh $p quick > /tmp/rv-$c-$p.log 2>&1; rc=$?
n=$(grep -c '^VIOLATION' /tmp/rv-$c-$p.log)
first=""
for f in $(grep '^VIOLATION' /tmp/rv-$c-$p.log | sed 's/.*replay=//'); do
  if [ -f "$f" ] && ! grep -q '"race":' "$f"; then first=$f; break; fi
done
sym=$(grep -m1 '^  symptom' /tmp/rv-$c-$p.log | cut -c1-160)
echo "$c $p exit=$rc violations=$n $sym"
if [ -n "$first" ] && [ -f "$first" ]; then mkdir -p known/fixed; cp "$first" known/fixed/$p-$c.json; fi
tag=$(echo "$wt" | md5sum | cut -c1-8); rm -rf .work/alt-$tag
cd /repo; git worktree remove --force $wt
