#!/bin/bash
# usage: evalbatch.sh <outdir> <prop> [extra checks...] : evaluates <outdir>/<prop>/{1,2} with seedeval2 and prints a compact summary
out=$1; p=$2; shift; shift
for n in 1 2; do
  src=$out/$p/$n
  [ -f $src/patch.diff ] || { echo "## $p/$n missing"; continue; }
  echo "######## $p/$n"
  SEEDLOG_TAG=$p-$n /verif/tools/seedeval2.sh $src $p "$@" > /tmp/evalbatch-$p-$n.log 2>&1
  grep -A1 "demo without\|demo with patch" /tmp/evalbatch-$p-$n.log | grep -v "^--" | tr '\n' ' '; echo
  grep -A3 "suite with patch" /tmp/evalbatch-$p-$n.log | grep "^FAIL\|^---" | head -3
  for c in $p "$@"; do
    echo "  $c: $(grep -A1 "check $c quick" /tmp/evalbatch-$p-$n.log | tail -1) violations=$(grep -c '^VIOLATION' /tmp/seed-check-$c-$p-$n.log)"
    grep '^  symptom' /tmp/seed-check-$c-$p-$n.log | sort | uniq -c | sort -rn | head -3 | cut -c1-220
  done
done
