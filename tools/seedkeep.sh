#!/bin/bash
# usage: seedkeep.sh <srcdir> <id> "<caught-by>" "<note>"
src=$1; id=$2; caught=$3; note=$4
dst=/verif/seeded/$id
mkdir -p $dst
cp $src/patch.diff $dst/patch.diff
cp $src/*_test.go $dst/ 2>/dev/null
python3 - "$src" "$dst" "$caught" "$note" <<'PY'
import json,sys,re
src,dst,caught,note=sys.argv[1:5]
m=json.load(open(src+'/meta.json'))
m['demo_cmd']=re.sub(r'/tmp/wt[2-9]?-C[0-9]+','/repo',m['demo_cmd'])
m['confirmed_by_me']=["git -C /repo apply patch.diff; go test -vet=off -count=1 ./... -> all packages ok","demo with patch -> FAIL; demo without patch -> PASS (tools/seedeval.sh)"]
m['caught_by']=caught.split()
m['note']=note
json.dump(m,open(dst+'/meta.json','w'),indent=1)
PY
echo kept $id
